#!/bin/sh
# Builds /verif/.venv offline: a venv on /venv's interpreter that sees /venv's packages
# (porepy editable install -> /repo/src) plus z3-solver / cvc5 from the local wheelhouse.
set -e
cd "$(dirname "$0")"
if [ -x .venv/bin/python ] && .venv/bin/python -c "import z3, porepy" 2>/dev/null; then
  exit 0
fi
rm -rf .venv
/venv/bin/python -m venv .venv
SP=$(.venv/bin/python -c "import sysconfig; print(sysconfig.get_paths()['purelib'])")
printf "import site; site.addsitedir('/venv/lib/python3.12/site-packages')\n" > "$SP/zz_venv_overlay.pth"
PIP_NO_INDEX=1 .venv/bin/pip install -q --no-index --find-links /opt/veriftools/wheels z3-solver cvc5 >/dev/null 2>&1 || \
PIP_NO_INDEX=1 .venv/bin/pip install -q --no-index --find-links /opt/veriftools/wheels z3-solver
.venv/bin/python -c "import z3, porepy; print('setup ok', z3.get_version_string())"
