#!/usr/bin/env python3
"""Prints the sub-agent brief for a seeded-change request (property text only)."""
import json, sys
pid = sys.argv[1]; wt = sys.argv[2]
for l in open('/verif/properties.jsonl'):
    p = json.loads(l)
    if p['id'] == pid:
        break
print(f"""You are helping test a verification effort for the open-source Python library PorePy (pmgbergen/porepy). Your job: produce ONE realistic, subtle source change ("seeded defect") that breaks the semantic property below while the library still imports, and while the project's existing test suite still passes.

Your private scratch checkout of the repository is the git worktree at {wt} (source under {wt}/src/porepy, tests under {wt}/tests). Work ONLY inside {wt}. Do not touch /repo or /verif, do not read anything under /verif. The Python interpreter is /venv/bin/python; porepy is installed in editable mode pointing at /repo/src, so to run code against YOUR worktree always use:  cd {wt} && PYTHONPATH={wt}/src /venv/bin/python ...   (and for tests:  cd {wt} && PYTHONPATH={wt}/src /venv/bin/python -m pytest -q -p no:cacheprovider -x <test files>). There is no network.

PROPERTY {p['id']}: {p['title']}
Statement: {p['statement']}
Quantified over: {p['quantifier']['text']}
Code anchors: {', '.join(p['anchors']['files'])}

Requirements for the change:
1. It must break the property for SOME inputs, but need something specific to manifest: an unusual input, a boundary/tie case, a particular multi-step sequence of operations, a rare branch, or two cooperating sites that each look fine alone. Do NOT make a change that ordinary use or any existing test exposes at once.
2. The code must still import, and the existing tests that exercise the touched files must still pass (run the relevant test files under {wt}/tests - find them with grep - and confirm they pass with your change; the full suite takes too long, run the relevant subset).
3. Keep it small (a few lines), plausible as a human mistake or over-eager refactor/optimisation, in the non-test source only (under src/porepy). No new files in src, no changes to tests.
4. Write a demonstration script {wt}/demo_{pid}.py (plain Python, exit code 1 and a printed message when the property is violated, exit code 0 when it holds) that FAILS with your change and PASSES on the unmodified code. Verify both: run it with your change, then run it on the unmodified code. Do NOT use `git stash` (the stash is shared between worktrees and other people work in sibling worktrees): use `git -C {wt} diff > /tmp/{pid}_change.patch; git -C {wt} apply -R /tmp/{pid}_change.patch; <run demo>; git -C {wt} apply /tmp/{pid}_change.patch`.
5. Leave your change applied but UNCOMMITTED in the worktree (so `git -C {wt} diff` shows it). Do not commit.

Final answer: report (a) the diff (git diff output), (b) which inputs/sequence are needed for it to manifest and why ordinary tests miss it, (c) the exact commands you ran to confirm tests pass and the demo fails/passes, with their outcomes.""")
