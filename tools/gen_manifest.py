#!/usr/bin/env python3
"""Regenerates /verif/MANIFEST.json from pv/registry.py and validates it."""
import json
import os
import sys

HERE = os.path.dirname(os.path.dirname(os.path.abspath(__file__)))
sys.path.insert(0, HERE)
from pv.registry import CLAIMED, NOT_APPLICABLE, PENDING_REASON  # noqa: E402

ids = [json.loads(l)["id"] for l in open(os.path.join(HERE, "properties.jsonl"))]
checks = []
na = []
for pid in ids:
    if pid in CLAIMED:
        text, note, tech, ref = CLAIMED[pid]
        checks.append({
            "property_id": pid,
            "quick_cmd": f"./check {pid} --tier quick",
            "thorough_cmd": f"./check {pid} --tier thorough",
            "evidence_file": f"evidence/{pid}.json",
            "replay_cmd_template": f"./check {pid} --replay {{path}}",
            "engine": "pv",
            "level_claimed": {"category": "model_checking", "text": text, "design_ref": ref},
            "level_note": note,
            "technique": tech,
        })
    else:
        na.append({"property_id": pid, "reason": NOT_APPLICABLE.get(pid, PENDING_REASON)})
fix_commits = []
kf = json.load(open(os.path.join(HERE, "known_findings.json")))
m = {
    "version": 1,
    "setup_cmd": "./setup.sh",
    "hooks": {
        "guard": "POREPY_VERIF",
        "enable": "no source hooks: all instrumentation is run-time patching inside the checking process (pv/session.py); POREPY_VERIF is reserved and unused",
        "baseline_off_cmd": "cd /repo && /venv/bin/python -m pytest -ra -q -p no:cacheprovider --timeout=900 --continue-on-collection-errors",
        "source_commits": [],
        "add_only": True,
    },
    "engines": [{
        "name": "pv",
        "path": "pv/",
        "serves_properties": sorted(CLAIMED),
        "kind_free_text": "symbolic execution of the real porepy Python code on z3-backed scalars inside numpy object arrays (path exploration by re-execution, obligations decided by z3 with cvc5 fallback), float/exact replay of witnesses and counterexamples on the unpatched code",
    }],
    "checks": checks,
    "not_applicable": na,
    "notes": "Technique family: solver-based checking of the real code. Defects repaired by fix: commits in /repo are listed in known_findings.json (status fixed). Exit codes: 0 held, 1 violation (VIOLATION line), 3 harness error (never a VIOLATION).",
}
with open(os.path.join(HERE, "MANIFEST.json"), "w") as f:
    json.dump(m, f, indent=1)
try:
    import jsonschema
    jsonschema.validate(m, json.load(open("/root/.vp/MANIFEST.schema.json")))
    print("MANIFEST valid:", len(checks), "checks,", len(na), "not_applicable")
except ImportError:
    print("jsonschema not available; wrote MANIFEST")
