#!/bin/sh
# Regenerates evidence/<ID>.json with the quick tier (VERIF_SEED=1, as used by the harness) for
# every claimed property, then validates the files against the evidence schema.
cd "$(dirname "$0")/.."
IDS=$(python3 -c "import json;print(' '.join(c['property_id'] for c in json.load(open('MANIFEST.json'))['checks']))")
rc=0
for id in $IDS; do
  VERIF_SEED=1 VERIF_TIER=quick ./check $id --tier quick > /tmp/regen_$id.log 2>&1
  code=$?
  tail -1 /tmp/regen_$id.log | cut -c1-200
  [ $code -ne 0 ] && { echo "  -> exit $code"; rc=1; }
done
python3-vt - <<'PY'
import json, glob, jsonschema
sch=json.load(open('/root/.vp/EVIDENCE.schema.json'))
for f in sorted(glob.glob('evidence/*.json')):
    try:
        jsonschema.validate(json.load(open(f)), sch)
    except Exception as e:
        print('INVALID', f, str(e)[:200])
print('evidence validated')
PY
exit $rc
