#!/usr/bin/env python3
"""Summarise stored counterexamples under /verif/replays (developer helper)."""
import collections
import glob
import json
import sys

pid = sys.argv[1] if len(sys.argv) > 1 else "*"
c = collections.Counter()
for f in glob.glob(f"/verif/replays/{pid}_*.json"):
    b = json.load(open(f))
    c[(b["obligation"], str(b["detail"])[:200])] += 1
for k, v in c.most_common(40):
    print(v, k)
