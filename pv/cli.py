"""./check <ID> [--tier quick|thorough] [--replay file]"""
from __future__ import annotations

import argparse
import importlib
import json
import os
import sys
import time
import traceback

VERIF = os.path.dirname(os.path.dirname(os.path.abspath(__file__)))


def load_known():
    p = os.path.join(VERIF, "known_findings.json")
    if not os.path.exists(p):
        return {}
    with open(p) as f:
        data = json.load(f)
    return {e["id"]: e for e in data.get("findings", [])}


def _die_with_parent():
    """Workers must not outlive the check (a killed ./check would otherwise leave them running)."""
    try:
        import ctypes
        import signal

        ctypes.CDLL("libc.so.6", use_errno=True).prctl(1, signal.SIGKILL)   # PR_SET_PDEATHSIG
        if os.getppid() == 1:
            os._exit(1)
    except Exception:  # noqa: BLE001
        pass


def _shard_worker(args):
    pid, tier, seed, shard = args
    import multiprocessing as _mp

    if _mp.current_process().name != "MainProcess":
        _die_with_parent()
    from . import session

    session.start_trace()
    from .explore import Config, Explorer, Report

    mod = importlib.import_module(f"pv.props.{pid.lower()}")
    session.patch_porepy()
    rep = Report(pid, tier, seed)
    cfg = Config(tier)
    if hasattr(mod, "configure"):
        mod.configure(cfg, tier)
    kf = {k: v for k, v in load_known().items() if v.get("property") == pid}
    ex = Explorer(rep, cfg, module=mod, known_findings=kf)
    try:
        mod.run_shard(ex, shard)
    except Exception as e:  # noqa: BLE001
        rep.harness_errors.append(
            f"shard {shard!r}: {type(e).__name__}: {e}\n{traceback.format_exc()[-2500:]}")
    finally:
        from .explore import Session
        from . import sym

        Session.active = False
        sym.set_cur(None)
    fns, others = session.traced_functions(getattr(mod, "TARGET_PREFIXES", ()))
    rep.functions.update(fns)
    rep.extra["other_porepy_functions_executed"] = others
    return rep.as_dict()


def main(argv=None):
    ap = argparse.ArgumentParser()
    ap.add_argument("pid")
    ap.add_argument("--tier", default=os.environ.get("VERIF_TIER", "quick"),
                    choices=["quick", "thorough"])
    ap.add_argument("--replay")
    ap.add_argument("--jobs", type=int, default=0)
    ap.add_argument("--shard", help="run only shards whose repr contains this text")
    a = ap.parse_args(argv)
    pid = a.pid.upper()
    if a.replay:
        from .explore import run_replay_file

        ok, out = run_replay_file(a.replay)
        print(out)
        if ok:
            print(f"VIOLATION property={pid} replay={a.replay}")
            return 1
        return 0
    seed = int(os.environ.get("VERIF_SEED", "0") or 0)
    t0 = time.time()
    from .explore import Report

    mod = importlib.import_module(f"pv.props.{pid.lower()}")
    shards = mod.shards(a.tier, seed)
    if a.shard:
        shards = [s for s in shards if a.shard in repr(s)]
    jobs = a.jobs or min(len(shards), 16 if a.tier == "thorough" else 8, os.cpu_count() or 1)
    rep = Report(pid, a.tier, seed)
    work = [(pid, a.tier, seed, s) for s in shards]
    if jobs <= 1:
        results = [_shard_worker(w) for w in work]
    else:
        import multiprocessing as mp

        # watchdog: z3 does not always honour its own timeout inside nonlinear arithmetic; if no
        # shard finishes for `stall` seconds the remaining ones are abandoned and reported as a
        # harness error (exit 3: undecided, never 'held' and never VIOLATION)
        stall = float(os.environ.get("PV_STALL_SECONDS", "1200" if a.tier == "quick" else "5400"))
        ctx = mp.get_context("spawn")
        results = []
        pool = ctx.Pool(jobs, maxtasksperchild=1)
        try:
            pending = [(w, pool.apply_async(_shard_worker, (w,))) for w in work]
            last = time.time()
            while pending:
                still = []
                for w, ar in pending:
                    if ar.ready():
                        results.append(ar.get())
                        last = time.time()
                    else:
                        still.append((w, ar))
                pending = still
                if pending and time.time() - last > stall:
                    for w, _ in pending:
                        rep.harness_errors.append(f"shard {w[3]!r}: no result within the watchdog limit "
                                                  f"({stall:.0f} s without progress); undecided")
                    break
                if pending:
                    time.sleep(0.1)
        finally:
            pool.terminate()
            pool.join()
    for r in results:
        rep.merge(r)
    meta = getattr(mod, "META", {})
    rep.bounds.update(meta.get("bounds", {}).get(a.tier, meta.get("bounds", {})) if isinstance(
        meta.get("bounds", {}), dict) else {})
    for k in ("outside", "stubs", "axioms", "assumptions"):
        for s in meta.get(k, []):
            if s not in getattr(rep, k):
                getattr(rep, k).append(s)
    rep.extra["shards"] = len(shards)
    code = finish(rep, mod, t0)
    return code


def finish(rep, mod, t0):
    from .evidence import write_evidence

    code = 0
    msgs = []
    if rep.reach_ok == 0:
        msgs.append("vacuity: no reachability witness at all")
        code = 3
    if rep.reach_fail:
        msgs.append(f"vacuity: unreachable harness points {rep.reach_fail[:5]}")
        code = 3
    if rep.validation_fail:
        msgs.append(f"encoding validation failed: {json.dumps(rep.validation_fail[:3], default=str)[:1500]}")
        code = 3
    if rep.unconfirmed:
        msgs.append(f"counterexample(s) that do not reproduce on the real code: "
                    f"{json.dumps(rep.unconfirmed[:3], default=str)[:1500]}")
        code = 3
    if rep.harness_errors:
        msgs.append("harness error: " + rep.harness_errors[0][-2500:])
        code = 3
    if rep.inconclusive:
        msgs.append(f"{len(rep.inconclusive)} obligation(s) undecided by the solvers within the time limit")
        code = 3
    if rep.violations:
        code = 1
    wall = time.time() - t0
    write_evidence(rep, mod, wall, code)
    print(f"[{rep.pid}] tier={rep.tier} paths={rep.paths} obligations={rep.obligations} "
          f"discharged={rep.discharged} inconclusive={len(rep.inconclusive)} "
          f"violations={len(rep.violations)} known={len(rep.known)} validated={rep.validated} "
          f"reach={rep.reach_ok} solver={rep.solver_time:.1f}s/{rep.solver_calls} wall={wall:.1f}s")
    for m in msgs:
        print("HARNESS-ERROR:", m, file=sys.stderr)
    if rep.inconclusive:
        print(f"inconclusive (first 5): {rep.inconclusive[:5]}")
    return code


if __name__ == "__main__":
    sys.exit(main())
