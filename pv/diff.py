"""Independent symbolic differentiator over z3 real terms (the AD oracle) and a float
evaluator of z3 terms with the true elementary functions (used for witness replay)."""
from __future__ import annotations

import math

import z3

_ZERO = z3.RealVal(0)
_ONE = z3.RealVal(1)


def _uf_derivative(name, arg, e, sqrt_of):
    """Textbook table: d/du of the elementary function `name` at u = arg."""
    from .sym import UF

    if name == "exp":
        return e
    if name == "log":
        return 1 / arg
    if name == "sin":
        return UF["cos"](arg)
    if name == "cos":
        return -UF["sin"](arg)
    if name == "tan":
        c = UF["cos"](arg)
        return 1 / (c * c)
    if name == "arcsin":
        return 1 / sqrt_of(1 - arg * arg)
    if name == "arccos":
        return -1 / sqrt_of(1 - arg * arg)
    if name == "arctan":
        return 1 / (1 + arg * arg)
    if name == "sinh":
        return UF["cosh"](arg)
    if name == "cosh":
        return UF["sinh"](arg)
    if name == "tanh":
        c = UF["cosh"](arg)
        return 1 / (c * c)
    if name == "arcsinh":
        return 1 / sqrt_of(arg * arg + 1)
    if name == "arccosh":
        return 1 / sqrt_of(arg * arg - 1)
    if name == "arctanh":
        return 1 / (1 - arg * arg)
    raise NotImplementedError(name)


def zdiff(e, x, ctx=None, cache=None):
    """d e / d x for a z3 real term e (x a z3 real constant).

    ctx supplies the definitions of sqrt variables (r = sqrt(arg)) so that they are
    differentiated as functions of their argument."""
    from .sym import POW, UF, sqrt_term

    if cache is None:
        cache = {}
    k = e.get_id()
    if k in cache:
        return cache[k]
    sqrt_defs = {}
    if ctx is not None:
        sqrt_defs = {r.get_id(): (r, arg) for r, arg in ctx._sqrt.values()}

    def sqrt_of(t):
        return sqrt_term(t)

    def rec(t):
        kk = t.get_id()
        if kk in cache:
            return cache[kk]
        if z3.is_rational_value(t) or z3.is_int_value(t) or z3.is_algebraic_value(t):
            r = _ZERO
        elif z3.is_const(t):
            if t.eq(x):
                r = _ONE
            elif kk in sqrt_defs:
                rv_, arg = sqrt_defs[kk]
                r = rec(arg) / (2 * rv_)
            else:
                r = _ZERO
        else:
            kind = t.decl().kind()
            ch = t.children()
            if kind == z3.Z3_OP_ADD:
                r = z3.Sum([rec(c) for c in ch])
            elif kind == z3.Z3_OP_SUB:
                d = [rec(c) for c in ch]
                r = d[0] - z3.Sum(d[1:]) if len(d) > 1 else -d[0]
            elif kind == z3.Z3_OP_UMINUS:
                r = -rec(ch[0])
            elif kind == z3.Z3_OP_MUL:
                terms = []
                for i in range(len(ch)):
                    di = rec(ch[i])
                    if z3.is_rational_value(di) and di.as_fraction() == 0:
                        continue
                    tt = di
                    for j in range(len(ch)):
                        if j != i:
                            tt = tt * ch[j]
                    terms.append(tt)
                r = z3.Sum(terms) if terms else _ZERO
            elif kind == z3.Z3_OP_DIV:
                d0, d1 = rec(ch[0]), rec(ch[1])
                r = (d0 * ch[1] - ch[0] * d1) / (ch[1] * ch[1])
            elif kind == z3.Z3_OP_POWER:
                base, ex = ch
                if not (z3.is_rational_value(ex) or z3.is_int_value(ex)):
                    raise NotImplementedError("symbolic z3 power")
                r = ex * (base ** (ex - 1)) * rec(base)
            elif kind == z3.Z3_OP_ITE:
                r = z3.If(ch[0], rec(ch[1]), rec(ch[2]))
            elif kind == z3.Z3_OP_TO_REAL:
                r = _ZERO
            elif kind == z3.Z3_OP_UNINTERPRETED:
                name = t.decl().name()
                if name in UF:
                    r = _uf_derivative(name, ch[0], t, sqrt_of) * rec(ch[0])
                elif name == "pow":
                    a, b = ch
                    da, db = rec(a), rec(b)
                    r = _ZERO
                    if not (z3.is_rational_value(da) and da.as_fraction() == 0):
                        r = r + b * POW(a, z3.simplify(b - 1)) * da
                    if not (z3.is_rational_value(db) and db.as_fraction() == 0):
                        la = UF["log"](a)
                        if z3.is_rational_value(a) and a.as_fraction() == 1:
                            la = _ZERO
                        r = r + t * la * db
                else:
                    raise NotImplementedError(f"derivative of {name}")
            else:
                raise NotImplementedError(f"derivative of {t.decl()}")
        r = z3.simplify(r)
        cache[kk] = r
        return r

    return rec(e)


_FLOAT_UF = {
    "exp": math.exp, "log": math.log, "sin": math.sin, "cos": math.cos, "tan": math.tan,
    "arcsin": math.asin, "arccos": math.acos, "arctan": math.atan, "sinh": math.sinh,
    "cosh": math.cosh, "tanh": math.tanh, "arcsinh": math.asinh, "arccosh": math.acosh,
    "arctanh": math.atanh,
}


def feval(e, env, ctx=None, cache=None):
    """Float value of z3 term e.  env: {z3 const name: float}.  Elementary functions and
    sqrt variables take their true values (not the model's interpretation)."""
    if cache is None:
        cache = {}
    sqrt_defs = {}
    if ctx is not None:
        sqrt_defs = {r.decl().name(): arg for r, arg in ctx._sqrt.values()}

    def rec(t):
        k = t.get_id()
        if k in cache:
            return cache[k]
        if z3.is_rational_value(t):
            fr = t.as_fraction()
            r = fr.numerator / fr.denominator
        elif z3.is_int_value(t):
            r = t.as_long()
        elif z3.is_true(t):
            r = True
        elif z3.is_false(t):
            r = False
        elif z3.is_const(t):
            n = t.decl().name()
            if n in sqrt_defs:
                r = math.sqrt(max(rec(sqrt_defs[n]), 0.0))
            else:
                r = env[n]
        else:
            kind = t.decl().kind()
            ch = t.children()
            if kind == z3.Z3_OP_ADD:
                r = sum(rec(c) for c in ch)
            elif kind == z3.Z3_OP_SUB:
                v = [rec(c) for c in ch]
                r = v[0] - sum(v[1:]) if len(v) > 1 else -v[0]
            elif kind == z3.Z3_OP_UMINUS:
                r = -rec(ch[0])
            elif kind == z3.Z3_OP_MUL:
                r = 1.0
                for c in ch:
                    r = r * rec(c)
            elif kind == z3.Z3_OP_DIV:
                r = rec(ch[0]) / rec(ch[1])
            elif kind == z3.Z3_OP_POWER:
                r = rec(ch[0]) ** rec(ch[1])
            elif kind == z3.Z3_OP_ITE:
                r = rec(ch[1]) if rec(ch[0]) else rec(ch[2])
            elif kind == z3.Z3_OP_TO_REAL:
                r = float(rec(ch[0]))
            elif kind == z3.Z3_OP_LE:
                r = rec(ch[0]) <= rec(ch[1])
            elif kind == z3.Z3_OP_LT:
                r = rec(ch[0]) < rec(ch[1])
            elif kind == z3.Z3_OP_GE:
                r = rec(ch[0]) >= rec(ch[1])
            elif kind == z3.Z3_OP_GT:
                r = rec(ch[0]) > rec(ch[1])
            elif kind == z3.Z3_OP_EQ:
                r = rec(ch[0]) == rec(ch[1])
            elif kind == z3.Z3_OP_DISTINCT:
                r = rec(ch[0]) != rec(ch[1])
            elif kind == z3.Z3_OP_AND:
                r = all(rec(c) for c in ch)
            elif kind == z3.Z3_OP_OR:
                r = any(rec(c) for c in ch)
            elif kind == z3.Z3_OP_NOT:
                r = not rec(ch[0])
            elif kind == z3.Z3_OP_UNINTERPRETED:
                name = t.decl().name()
                if name in _FLOAT_UF:
                    r = _FLOAT_UF[name](rec(ch[0]))
                elif name == "pow":
                    r = rec(ch[0]) ** rec(ch[1])
                else:
                    raise NotImplementedError(name)
            else:
                raise NotImplementedError(str(t.decl()))
        cache[k] = r
        return r

    return rec(e)


def feval_struct(x, env, ctx=None):
    """feval over nested structures of symbolic scalars / object arrays."""
    import numpy as np

    from .sym import SBool, SReal, lift

    cache = {}
    if isinstance(x, (SReal, SBool)):
        return feval(lift(x) if isinstance(x, SReal) else x.e, env, ctx, cache)
    if isinstance(x, np.ndarray) and x.dtype == object:
        out = np.empty(x.shape, dtype=float)
        for idx in np.ndindex(*x.shape):
            out[idx] = feval_struct(x[idx], env, ctx)
        return out
    if isinstance(x, (list, tuple)):
        return type(x)(feval_struct(v, env, ctx) for v in x)
    if isinstance(x, dict):
        return {k: feval_struct(v, env, ctx) for k, v in x.items()}
    return x
