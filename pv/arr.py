"""Symbolic numpy arrays (object dtype) and the numpy proxy used inside porepy modules."""
from __future__ import annotations

import numpy as _np
import z3

from . import sym
from .explore import Session
from .sym import SBool, SInt, SReal, lift

_REAL_DTYPES = (float, _np.float64, "float", "float64", "d", _np.dtype(float), None)


def _liftel(v):
    if isinstance(v, (SReal, SBool)):
        return v
    if isinstance(v, (bool, _np.bool_)):
        return v
    if isinstance(v, (int, float, _np.number)):
        return SReal(sym.rv(v))
    return v


_liftvec = _np.frompyfunc(_liftel, 1, 1)

_ARITH = {_np.add, _np.subtract, _np.multiply, _np.true_divide, _np.negative, _np.positive,
          _np.less, _np.less_equal, _np.greater, _np.greater_equal, _np.equal, _np.not_equal,
          _np.matmul, _np.power, _np.absolute, _np.bitwise_and, _np.bitwise_or, _np.bitwise_xor,
          _np.invert}


def _bools_to_num(a):
    flat = a.reshape(-1).tolist()
    if not any(isinstance(v, SBool) for v in flat):
        return a
    out = _np.empty(len(flat), dtype=object)
    for i, v in enumerate(flat):
        out[i] = v._r() if isinstance(v, SBool) else (int(v) if isinstance(v, (bool, _np.bool_)) else v)
    return out.reshape(a.shape)


class SymArr(_np.ndarray):
    """ndarray subclass, dtype=object, elements SReal/SInt/SBool or plain numbers."""

    def astype(self, dtype, *a, **k):
        if dtype is object:
            return self.copy()
        if dtype in _REAL_DTYPES:
            c = self.copy()
            flat = c.view(_np.ndarray).reshape(-1)
            for i, v in enumerate(flat.tolist()):
                if isinstance(v, SBool):
                    flat[i] = v._r()          # True -> 1.0, False -> 0.0 (as a term)
                elif isinstance(v, (bool, _np.bool_)):
                    flat[i] = float(v)
            return c
        if dtype in (bool, _np.bool_):
            flat = [bool(v) for v in _np.asarray(self).ravel().tolist()]
            return _np.array(flat, dtype=bool).reshape(self.shape)
        if dtype in (int, _np.int64, _np.int32):
            flat = [int(v) for v in _np.asarray(self).ravel().tolist()]
            return _np.array(flat, dtype=int).reshape(self.shape)
        return _np.asarray(self).astype(dtype, *a, **k)

    def __array_ufunc__(self, ufunc, method, *inputs, out=None, **kwargs):
        ins = []
        need_lift = ufunc not in _ARITH
        for i in inputs:
            if isinstance(i, _np.ndarray):
                a = i.view(_np.ndarray)
                if a.dtype == object and need_lift and a.size:
                    a = _np.asarray(_liftvec(a), dtype=object).reshape(a.shape)
                ins.append(a)
            elif need_lift and isinstance(i, (int, float, _np.number)) and not isinstance(i, bool):
                ins.append(SReal(sym.rv(i)))
            else:
                ins.append(i)
        if out is not None:
            kwargs["out"] = tuple(
                o.view(_np.ndarray) if isinstance(o, _np.ndarray) else o for o in out)
        if ufunc is _np.add and method != "__call__":
            # sum / cumsum of booleans counts (numpy promotes bool to int in reductions)
            ins = [_np.asarray(_bools_to_num(a), dtype=object) if isinstance(a, _np.ndarray) and a.dtype == object
                   else a for a in ins]
        if ufunc is _np.logical_and:
            ufunc = _np.bitwise_and
        elif ufunc is _np.logical_or:
            ufunc = _np.bitwise_or
        elif ufunc is _np.logical_not:
            return _wrap(_np.frompyfunc(_not, 1, 1)(ins[0]))
        elif ufunc is _np.sign and method == "__call__":
            return _wrap(_np.frompyfunc(_sign, 1, 1)(ins[0]))
        elif ufunc in (_np.maximum, _np.minimum) and method == "__call__":
            f = _max2 if ufunc is _np.maximum else _min2
            return _wrap(_np.frompyfunc(f, 2, 1)(ins[0], ins[1]))
        elif ufunc in (_np.isfinite,) and method == "__call__":
            return _np.ones(_np.shape(ins[0]), dtype=bool)
        elif ufunc in (_np.isnan, _np.isinf) and method == "__call__":
            return _np.zeros(_np.shape(ins[0]), dtype=bool)
        elif ufunc is _np.heaviside and method == "__call__":
            return _wrap(_np.frompyfunc(_heaviside, 2, 1)(ins[0], ins[1]))
        r = getattr(ufunc, method)(*ins, **kwargs)
        return _wrap(r)

    def __array_function__(self, func, types_, args, kwargs):
        impl = _FUNCS.get(func)
        if impl is not None:
            return impl(*args, **kwargs)
        r = super().__array_function__(func, types_, args, kwargs)
        return _wrap(r)

    def __getitem__(self, key):
        key = _conc_key(key)
        r = super().__getitem__(key)
        return r

    def __setitem__(self, key, val):
        key = _conc_key(key)
        super().__setitem__(key, val)

    def __bool__(self):
        if self.size == 1:
            return bool(_np.asarray(self).ravel()[0])
        raise ValueError("truth value of a symbolic array with more than one element")

    def __float__(self):
        if self.size == 1:
            return float(_np.asarray(self).ravel()[0])
        raise TypeError("only size-1 arrays")

    def __deepcopy__(self, memo):
        return self.copy()

    def tolist(self):
        return _np.asarray(self).tolist()

    def max(self, axis=None, **k):
        return amax(self, axis=axis)

    def min(self, axis=None, **k):
        return amin(self, axis=axis)

    def any(self, axis=None, **k):
        return sany(self, axis=axis)

    def all(self, axis=None, **k):
        return sall(self, axis=axis)

    def mean(self, axis=None, **k):
        return smean(self, axis=axis)

    def argmax(self, axis=None, **k):
        return sargmax(self, axis)

    def argmin(self, axis=None, **k):
        return sargmin(self, axis)

    def nonzero(self):
        return _np.nonzero(self.astype(bool))


def _not(v):
    if isinstance(v, SBool):
        return ~v
    if isinstance(v, SReal):
        return v == 0
    return not v


def _sign(v):
    if isinstance(v, SReal):
        return v.sign()
    return _np.sign(v)


def _heaviside(x, h0):
    if isinstance(x, SReal) or isinstance(h0, SReal):
        xe, he = lift(x), lift(h0)
        return SReal(z3.If(xe > 0, z3.RealVal(1), z3.If(xe < 0, z3.RealVal(0), he)))
    return _np.heaviside(x, h0)


def _max2(a, b):
    if isinstance(a, (SReal, SBool)) or isinstance(b, (SReal, SBool)):
        return a if bool(a >= b) else b
    return max(a, b)


def _min2(a, b):
    if isinstance(a, (SReal, SBool)) or isinstance(b, (SReal, SBool)):
        return a if bool(a <= b) else b
    return min(a, b)


def _conc_key(key):
    """Indexing with symbolic entries concretises them (forks)."""
    if isinstance(key, tuple):
        return tuple(_conc_key(k) for k in key)
    if isinstance(key, SInt):
        return int(key)
    if isinstance(key, SBool):
        return bool(key)
    if isinstance(key, _np.ndarray) and key.dtype == object:
        flat = _np.asarray(key).ravel().tolist()
        if all(isinstance(v, (SBool, bool, _np.bool_)) for v in flat):
            return _np.array([bool(v) for v in flat], dtype=bool).reshape(key.shape)
        return _np.array([int(v) for v in flat], dtype=int).reshape(key.shape)
    return key


def _wrap(r):
    if isinstance(r, _np.ndarray):
        if r.dtype == object:
            if r.ndim == 0:
                return r.item()
            if not isinstance(r, SymArr):
                return r.view(SymArr)
        elif isinstance(r, SymArr):
            return r.view(_np.ndarray)
        return r
    if isinstance(r, tuple):
        return tuple(_wrap(x) for x in r)
    if isinstance(r, list):
        return [_wrap(x) for x in r]
    return r


def sa(x) -> SymArr:
    a = _np.array(x, dtype=object) if not isinstance(x, _np.ndarray) else x.astype(object)
    return a.view(SymArr)


def lift_array(x) -> SymArr:
    """Object array whose numeric entries are exact rational constants."""
    a = _np.asarray(x)
    out = _np.empty(a.shape, dtype=object)
    flat = out.ravel()
    for i, v in enumerate(a.ravel().tolist()):
        flat[i] = _liftel(v)
    return out.view(SymArr)


def has_sym(x) -> bool:
    if isinstance(x, (SReal, SBool)):
        return True
    if isinstance(x, _np.ndarray):
        if x.dtype != object:
            return False
        return any(isinstance(v, (SReal, SBool)) for v in _np.asarray(x).ravel().tolist())
    if isinstance(x, (list, tuple)):
        return any(has_sym(v) for v in x)
    return False


def is_objarr(x) -> bool:
    return isinstance(x, _np.ndarray) and x.dtype == object


def is_sym(x) -> bool:
    """Cheap test: symbolic scalar or object array (or list containing one)."""
    if isinstance(x, (SReal, SBool)):
        return True
    if isinstance(x, _np.ndarray):
        return x.dtype == object
    if isinstance(x, (list, tuple)):
        return any(is_sym(v) for v in x)
    return False


def unlift(x):
    """Object array without symbolic entries -> float array."""
    if isinstance(x, _np.ndarray) and x.dtype == object and not has_sym(x):
        flat = _np.asarray(x).ravel().tolist()
        if all(isinstance(v, (bool, _np.bool_)) for v in flat) and flat:
            return _np.array(flat, dtype=bool).reshape(x.shape)
        return _np.array([float(v) for v in flat], dtype=float).reshape(x.shape)
    return x


# ---------------------------------------------------------------------- reductions etc.


def _reduce_axis(a, axis, f):
    a = _np.asarray(a, dtype=object)
    if axis is None:
        return f(a.ravel().tolist())
    a = _np.moveaxis(a, axis, -1)
    out = _np.empty(a.shape[:-1], dtype=object)
    for idx in _np.ndindex(*a.shape[:-1]):
        out[idx] = f(a[idx].tolist())
    if out.ndim == 0:
        return out.item()
    return out.view(SymArr)


def _fmax(lst):
    m = lst[0]
    for v in lst[1:]:
        m = _max2(m, v)
    return m


def _fmin(lst):
    m = lst[0]
    for v in lst[1:]:
        m = _min2(m, v)
    return m


def amax(a, axis=None, **k):
    return _reduce_axis(a, axis, _fmax)


def amin(a, axis=None, **k):
    return _reduce_axis(a, axis, _fmin)


def sany(a, axis=None, **k):
    return _reduce_axis(a, axis, lambda l: any(bool(v) for v in l))


def sall(a, axis=None, **k):
    return _reduce_axis(a, axis, lambda l: all(bool(v) for v in l))


def smean(a, axis=None, **k):
    def f(l):
        s = l[0]
        for v in l[1:]:
            s = s + v
        return s / len(l)

    return _reduce_axis(a, axis, f)


def _argbest(lst, better):
    bi = 0
    for i in range(1, len(lst)):
        if bool(better(lst[i], lst[bi])):
            bi = i
    return bi


def _argmax_list(l):
    if l and all(isinstance(v, (SBool, bool, _np.bool_)) for v in l):
        for i, v in enumerate(l):
            if bool(v):
                return i
        return 0
    return _argbest(l, lambda x, y: x > y)


def sargmax(a, axis=None, **k):
    return _reduce_axis(a, axis, _argmax_list)


def sargmin(a, axis=None, **k):
    return _reduce_axis(a, axis, lambda l: _argbest(l, lambda x, y: x < y))


def sargsort(a, axis=-1, kind=None, order=None, **k):
    a = _np.asarray(a, dtype=object)
    if a.ndim != 1:
        a2 = _np.moveaxis(a, axis, -1)
        out = _np.empty(a2.shape, dtype=int)
        for idx in _np.ndindex(*a2.shape[:-1]):
            out[idx] = sargsort(a2[idx])
        return _np.moveaxis(out, -1, axis)
    lst = a.tolist()
    idx = list(range(len(lst)))
    # stable insertion sort driven by symbolic comparisons (forks)
    for i in range(1, len(idx)):
        j = i
        while j > 0 and bool(lst[idx[j]] < lst[idx[j - 1]]):
            idx[j], idx[j - 1] = idx[j - 1], idx[j]
            j -= 1
    return _np.array(idx, dtype=int)


def ssort(a, axis=-1, **k):
    a = _np.asarray(a, dtype=object)
    if a.ndim == 1:
        return a[sargsort(a)].view(SymArr)
    a2 = _np.moveaxis(a, axis, -1).copy()
    for idx in _np.ndindex(*a2.shape[:-1]):
        a2[idx] = a2[idx][sargsort(a2[idx])]
    return _np.moveaxis(a2, -1, axis).view(SymArr)


def sisclose(a, b, rtol=1e-05, atol=1e-08, equal_nan=False):
    """numpy doc formula: |a - b| <= atol + rtol * |b|."""
    r = _np.frompyfunc(lambda x, y: abs(x - y) <= atol + rtol * abs(y), 2, 1)(
        _objify(a), _objify(b))
    return _wrap(r) if isinstance(r, _np.ndarray) else r


def _objify(x):
    if isinstance(x, _np.ndarray):
        return x.astype(object) if x.dtype != object else x.view(_np.ndarray)
    if isinstance(x, (list, tuple)):
        return _np.array(x, dtype=object)
    return x


def sallclose(a, b, rtol=1e-05, atol=1e-08, equal_nan=False):
    r = sisclose(a, b, rtol, atol)
    if isinstance(r, _np.ndarray):
        return sall(r)
    return bool(r)


def swhere(cond, x=None, y=None):
    if x is None and y is None:
        c = _np.asarray(cond)
        if c.dtype == object:
            c = c.view(SymArr).astype(bool)
        return _np.where(c)
    c = _np.asarray(cond)
    if c.dtype == object:
        c = c.view(SymArr).astype(bool)
    xo, yo = _objify(x), _objify(y)
    c, xo, yo = _np.broadcast_arrays(c, _np.asarray(xo, dtype=object), _np.asarray(yo, dtype=object))
    out = _np.empty(c.shape, dtype=object)
    for idx in _np.ndindex(*c.shape):
        out[idx] = xo[idx] if c[idx] else yo[idx]
    return _wrap(out)


def snorm(x, ord=None, axis=None, keepdims=False):
    a = _np.asarray(x, dtype=object)
    if ord not in (None, 2, "fro"):
        raise NotImplementedError(f"norm ord={ord}")

    def f(l):
        s = l[0] * l[0]
        for v in l[1:]:
            s = s + v * v
        return _liftel(s).sqrt() if isinstance(_liftel(s), SReal) else _np.sqrt(s)

    r = _reduce_axis(a, axis, f)
    if keepdims and axis is not None:
        r = _np.expand_dims(r, axis)
    return r


def sdet(a):
    a = _np.asarray(a, dtype=object)
    n = a.shape[-1]
    if a.ndim > 2:
        out = _np.empty(a.shape[:-2], dtype=object)
        for idx in _np.ndindex(*a.shape[:-2]):
            out[idx] = sdet(a[idx])
        return out.view(SymArr)
    if n == 1:
        return a[0, 0]
    if n == 2:
        return a[0, 0] * a[1, 1] - a[0, 1] * a[1, 0]
    if n == 3:
        return (a[0, 0] * (a[1, 1] * a[2, 2] - a[1, 2] * a[2, 1])
                - a[0, 1] * (a[1, 0] * a[2, 2] - a[1, 2] * a[2, 0])
                + a[0, 2] * (a[1, 0] * a[2, 1] - a[1, 1] * a[2, 0]))
    raise NotImplementedError("det n>3")


def sinv(a):
    """Contract stub: fresh X with A X = I, X A = I (det A != 0)."""
    a = _np.asarray(a, dtype=object)
    n = a.shape[0]
    ctx = sym.cur()
    if n <= 3:
        # exact inverse adj(A)/det(A) under the contract's own assumption det A != 0
        d = sdet(a)
        if isinstance(d, SReal):
            ctx.assume(lift(d) != 0)
        adj = _cofactor_inverse_times_det(a)
        X = _np.empty((n, n), dtype=object)
        for i in range(n):
            for j in range(n):
                X[i, j] = adj[i, j] / d
        return X.view(SymArr)
    X = _np.empty((n, n), dtype=object)
    for i in range(n):
        for j in range(n):
            X[i, j] = ctx.fresh_real("inv")
    for i in range(n):
        for j in range(n):
            lhs = sum((a[i, k] * X[k, j] for k in range(1, n)), a[i, 0] * X[0, j])
            lhs2 = sum((X[i, k] * a[k, j] for k in range(1, n)), X[i, 0] * a[0, j])
            ctx.assume(lift(lhs) == (1 if i == j else 0))
            ctx.assume(lift(lhs2) == (1 if i == j else 0))
    if n <= 3:
        ctx.assume(lift(sdet(a)) != 0)
    return X.view(SymArr)


def _cofactor_inverse_times_det(a):
    """adj(A) for n <= 3 (so that A^-1 = adj(A) / det A)."""
    n = a.shape[0]
    adj = _np.empty((n, n), dtype=object)
    if n == 1:
        adj[0, 0] = 1
        return adj
    for i in range(n):
        for j in range(n):
            rows = [r for r in range(n) if r != j]
            cols = [c for c in range(n) if c != i]
            minor = a[_np.ix_(rows, cols)]
            m = sdet(minor)
            adj[i, j] = m if (i + j) % 2 == 0 else -m
    return adj


def ssolve(a, b):
    """n <= 3: the exact solution adj(A) b / det A under the assumption det A != 0 (the
    documented contract of a successful np.linalg.solve).  Larger systems: contract stub with
    fresh unknowns X and the assumption A X = B."""
    a = _np.asarray(a, dtype=object)
    b = _np.asarray(b, dtype=object)
    n = a.shape[0]
    ctx = sym.cur()
    if n <= 3:
        d = sdet(a)
        ctx.assume(lift(d) != 0)
        adj = _cofactor_inverse_times_det(a)
        bb = b.reshape(n, -1)
        X = _np.empty(bb.shape, dtype=object)
        for i in range(n):
            for j in range(bb.shape[1]):
                acc = adj[i, 0] * bb[0, j]
                for k in range(1, n):
                    acc = acc + adj[i, k] * bb[k, j]
                X[i, j] = acc / d
        return X.reshape(b.shape).view(SymArr)
    X = _np.empty(b.shape, dtype=object)
    for idx in _np.ndindex(*b.shape):
        X[idx] = ctx.fresh_real("sol")
    bb = b.reshape(n, -1)
    XX = X.reshape(n, -1)
    for i in range(n):
        for j in range(bb.shape[1]):
            lhs = sum((a[i, k] * XX[k, j] for k in range(1, n)), a[i, 0] * XX[0, j])
            ctx.assume(lift(lhs) == lift(bb[i, j]))
    if n <= 3:
        ctx.assume(lift(sdet(a)) != 0)
    return X.view(SymArr)


def sbincount(x, weights=None, minlength=0):
    x = _np.asarray(x)
    n = max(int(x.max()) + 1 if x.size else 0, minlength)
    out = _np.empty(n, dtype=object)
    out.fill(0)
    for i, w in zip(x.tolist(), _np.asarray(weights, dtype=object).tolist()):
        out[i] = out[i] + w
    return out.view(SymArr)


def scumsum(a, axis=None, **k):
    a = _np.asarray(a, dtype=object)
    if a.ndim != 1 and axis is None:
        a = a.ravel()
    if a.ndim == 1:
        out = _np.empty(a.shape, dtype=object)
        s = 0
        for i, v in enumerate(a.tolist()):
            s = s + v
            out[i] = s
        return out.view(SymArr)
    a2 = _np.moveaxis(a, axis, -1).copy()
    for idx in _np.ndindex(*a2.shape[:-1]):
        a2[idx] = scumsum(a2[idx])
    return _np.moveaxis(a2, -1, axis).view(SymArr)


def scross(a, b, axisa=-1, axisb=-1, axisc=-1, axis=None):
    if axis is not None:
        axisa = axisb = axisc = axis
    a = _np.moveaxis(_np.asarray(_objify(a), dtype=object), axisa, -1)
    b = _np.moveaxis(_np.asarray(_objify(b), dtype=object), axisb, -1)
    a, b = _np.broadcast_arrays(a, b)
    if a.shape[-1] != 3:
        raise NotImplementedError("cross of non-3-vectors")
    out = _np.empty(a.shape, dtype=object)
    out[..., 0] = a[..., 1] * b[..., 2] - a[..., 2] * b[..., 1]
    out[..., 1] = a[..., 2] * b[..., 0] - a[..., 0] * b[..., 2]
    out[..., 2] = a[..., 0] * b[..., 1] - a[..., 1] * b[..., 0]
    return _wrap(_np.moveaxis(out, -1, axisc))


def ssearchsorted(a, v, side="left", sorter=None):
    a = _np.asarray(_objify(a), dtype=object).tolist()
    scalar = not isinstance(v, (_np.ndarray, list, tuple))
    vs = [v] if scalar else _np.asarray(_objify(v), dtype=object).ravel().tolist()
    out = []
    for x in vs:
        i = 0
        if side == "left":
            while i < len(a) and bool(a[i] < x):
                i += 1
        else:
            while i < len(a) and bool(a[i] <= x):
                i += 1
        out.append(i)
    return out[0] if scalar else _np.array(out, dtype=int).reshape(_np.shape(v))


def sclip(a, a_min=None, a_max=None, **k):
    r = _objify(a)
    if a_min is not None:
        r = _np.frompyfunc(_max2, 2, 1)(r, _objify(a_min))
    if a_max is not None:
        r = _np.frompyfunc(_min2, 2, 1)(r, _objify(a_max))
    return _wrap(r)


def sisin_unsupported(*a, **k):
    raise NotImplementedError("set operation on symbolic data")


_FUNCS = {
    _np.amax: amax, _np.max: amax, _np.amin: amin, _np.min: amin,
    _np.any: sany, _np.all: sall, _np.mean: smean,
    _np.argmax: sargmax, _np.argmin: sargmin, _np.argsort: sargsort, _np.sort: ssort,
    _np.isclose: sisclose, _np.allclose: sallclose, _np.where: swhere,
    _np.linalg.norm: snorm, _np.linalg.det: sdet, _np.linalg.inv: sinv,
    _np.linalg.solve: ssolve, _np.bincount: sbincount, _np.cumsum: scumsum,
    _np.cross: scross, _np.searchsorted: ssearchsorted, _np.clip: sclip,
    _np.nonzero: lambda a: _np.nonzero(_np.asarray(a).view(SymArr).astype(bool)),
    _np.flatnonzero: lambda a: _np.flatnonzero(_np.asarray(a).view(SymArr).astype(bool)),
    _np.count_nonzero: lambda a, **k: int(_np.count_nonzero(_np.asarray(a).view(SymArr).astype(bool))),
    _np.unique: sisin_unsupported, _np.isin: sisin_unsupported,
    _np.logical_and: lambda a, b: _wrap(_np.bitwise_and(_objify(a), _objify(b))),
    _np.logical_or: lambda a, b: _wrap(_np.bitwise_or(_objify(a), _objify(b))),
}


class _LinalgProxy:
    def __getattr__(self, n):
        return getattr(_np.linalg, n)

    def norm(self, x, *a, **k):
        if Session.active and is_sym(x):
            return snorm(x, *a, **k)
        return _np.linalg.norm(unlift(x) if is_objarr(x) else x, *a, **k)

    def det(self, a):
        if Session.active and is_sym(a):
            return sdet(a)
        return _np.linalg.det(a)

    def inv(self, a):
        if Session.active and is_sym(a):
            if not has_sym(a):
                return lift_array(_np.linalg.inv(unlift(a)))
            return sinv(a)
        return _np.linalg.inv(a)

    def solve(self, a, b):
        if Session.active and (is_sym(a) or is_sym(b)):
            if not has_sym(a) and not has_sym(b):
                return lift_array(_np.linalg.solve(unlift(_np.asarray(a)), unlift(_np.asarray(b))))
            return ssolve(a, b)
        return _np.linalg.solve(a, b)


class _MaProxy:
    """np.ma: comparisons of symbolic arrays are decided per element (forks) and returned as
    ordinary masked arrays of booleans."""

    def __getattr__(self, n):
        return getattr(_np.ma, n)

    def _cmp(self, name, a, b):
        if Session.active and (is_sym(a) or is_sym(b)):
            r = getattr(_np, name)(sa(a) if isinstance(a, _np.ndarray) else a, b)
            r = _np.asarray(r)
            if r.dtype == object:
                r = r.view(SymArr).astype(bool)
            return _np.ma.masked_array(_np.asarray(r, dtype=bool))
        return getattr(_np.ma, name)(a, b)

    def less_equal(self, a, b):
        return self._cmp("less_equal", a, b)

    def greater_equal(self, a, b):
        return self._cmp("greater_equal", a, b)

    def less(self, a, b):
        return self._cmp("less", a, b)

    def greater(self, a, b):
        return self._cmp("greater", a, b)


class NPProxy:
    """Stands in for the module-global ``np`` inside porepy modules."""

    linalg = _LinalgProxy()
    ma = _MaProxy()

    def __getattr__(self, n):
        return getattr(_np, n)

    # ---- allocation: float arrays become object arrays while a session is active
    def _alloc(self, fn, fill, shape, dtype, k):
        if Session.active and dtype in _REAL_DTYPES and not k.get("like"):
            a = _np.empty(shape, dtype=object)
            a.fill(fill)
            return a.view(SymArr)
        return fn(shape, dtype=dtype if dtype is not None else float, **k)

    def zeros(self, shape, dtype=float, **k):
        return self._alloc(_np.zeros, 0.0, shape, dtype, k)

    def ones(self, shape, dtype=float, **k):
        return self._alloc(_np.ones, 1.0, shape, dtype, k)

    def empty(self, shape, dtype=float, **k):
        return self._alloc(_np.empty, 0.0, shape, dtype, k)

    def full(self, shape, fill_value, dtype=None, **k):
        if Session.active and (is_sym(fill_value) or (
                dtype in _REAL_DTYPES and isinstance(fill_value, (float, _np.floating)))):
            a = _np.empty(shape, dtype=object)
            a.fill(fill_value)
            return a.view(SymArr)
        return _np.full(shape, fill_value, dtype=dtype, **k)

    def zeros_like(self, a, dtype=None, **k):
        if Session.active and is_objarr(a) and dtype is None:
            return self.zeros(k.get("shape") if k.get("shape") is not None else _np.shape(a))
        return _np.zeros_like(a, dtype=dtype, **k)

    def ones_like(self, a, dtype=None, **k):
        if Session.active and is_objarr(a) and dtype is None:
            return self.ones(k.get("shape") if k.get("shape") is not None else _np.shape(a))
        return _np.ones_like(a, dtype=dtype, **k)

    def array(self, obj, dtype=None, **k):
        if Session.active and is_sym(obj):
            if dtype in _REAL_DTYPES or dtype is object:
                k.pop("copy", None)
                return _wrap(_np.array(obj, dtype=object, **k))
            return sa(obj).astype(dtype)
        return _np.array(obj, dtype=dtype, **k)

    def asarray(self, obj, dtype=None, **k):
        if Session.active and is_sym(obj):
            if isinstance(obj, SymArr) and (dtype in _REAL_DTYPES or dtype is object):
                return obj
            if dtype in _REAL_DTYPES or dtype is object:
                return _wrap(_np.asarray(obj, dtype=object))
            return sa(obj).astype(dtype)
        return _np.asarray(obj, dtype=dtype, **k)

    def atleast_1d(self, *a):
        r = _np.atleast_1d(*[_objify(x) if is_sym(x) else x for x in a])
        return _wrap(r)

    def atleast_2d(self, *a):
        r = _np.atleast_2d(*[_objify(x) if is_sym(x) else x for x in a])
        return _wrap(r)

    def _disp(name, impl):  # noqa: N805
        real = getattr(_np, name)

        def f(self, *a, **k):
            if Session.active and any(is_sym(x) for x in a):
                return impl(*a, **k)
            return real(*a, **k)

        f.__name__ = name
        return f

    max = _disp("max", amax)
    amax = _disp("amax", amax)
    min = _disp("min", amin)
    amin = _disp("amin", amin)
    any = _disp("any", sany)
    all = _disp("all", sall)
    mean = _disp("mean", smean)
    argmax = _disp("argmax", sargmax)
    argmin = _disp("argmin", sargmin)
    argsort = _disp("argsort", sargsort)
    sort = _disp("sort", ssort)
    def isclose(self, a, b, rtol=1e-05, atol=1e-08, equal_nan=False):
        import fractions as _fr

        if (Session.active and (is_sym(a) or is_sym(b))) or isinstance(a, _fr.Fraction) \
                or isinstance(b, _fr.Fraction) or is_objarr(a) or is_objarr(b):
            return sisclose(a, b, rtol, atol)
        return _np.isclose(a, b, rtol=rtol, atol=atol, equal_nan=equal_nan)

    allclose = _disp("allclose", sallclose)
    cumsum = _disp("cumsum", scumsum)
    cross = _disp("cross", scross)
    searchsorted = _disp("searchsorted", ssearchsorted)
    clip = _disp("clip", sclip)

    def where(self, cond, *a):
        if Session.active and (is_sym(cond) or any(is_sym(x) for x in a)):
            return swhere(cond, *a)
        return _np.where(cond, *a)

    def bincount(self, x, weights=None, minlength=0):
        if Session.active and weights is not None and is_sym(weights):
            return sbincount(x, weights, minlength)
        return _np.bincount(x, weights=weights, minlength=minlength)

    def _unary(name):  # noqa: N805
        real = getattr(_np, name)

        def f(self, x, *a, **k):
            if Session.active:
                if isinstance(x, SReal):
                    return getattr(x, name)()
                if isinstance(x, _np.ndarray) and x.dtype == object and not isinstance(x, SymArr):
                    x = x.view(SymArr)
            return real(x, *a, **k)

        f.__name__ = name
        return f

    for _n in sym.UF_NAMES + ["sqrt", "sign", "square"]:
        locals()[_n] = _unary(_n)
    del _n

    def abs(self, x, *a, **k):
        if isinstance(x, SReal):
            return abs(x)
        return _np.abs(x, *a, **k)

    absolute = abs

    def isfinite(self, x):
        if isinstance(x, SReal):
            return True
        return _np.isfinite(x)

    def isnan(self, x):
        if isinstance(x, SReal):
            return False
        return _np.isnan(x)

    def isscalar(self, x):
        return isinstance(x, (SReal, SBool)) or _np.isscalar(x)

    def maximum(self, a, b, *r, **k):
        if Session.active and (is_sym(a) or is_sym(b)):
            return _wrap(_np.frompyfunc(_max2, 2, 1)(_objify(a), _objify(b)))
        return _np.maximum(a, b, *r, **k)

    def minimum(self, a, b, *r, **k):
        if Session.active and (is_sym(a) or is_sym(b)):
            return _wrap(_np.frompyfunc(_min2, 2, 1)(_objify(a), _objify(b)))
        return _np.minimum(a, b, *r, **k)

    def heaviside(self, x, h0):
        if Session.active and (is_sym(x) or is_sym(h0)):
            return _wrap(_np.frompyfunc(_heaviside, 2, 1)(_objify(x), _objify(h0)))
        return _np.heaviside(x, h0)

    def logical_not(self, x, *a, **k):
        if Session.active and is_sym(x):
            if isinstance(x, (SReal, SBool)):
                return _not(x)
            return _wrap(_np.frompyfunc(_not, 1, 1)(_objify(x)))
        return _np.logical_not(x, *a, **k)

    def logical_and(self, a, b, *r, **k):
        if Session.active and (is_sym(a) or is_sym(b)):
            return _wrap(_np.bitwise_and(_objify(a), _objify(b)))
        return _np.logical_and(a, b, *r, **k)

    def logical_or(self, a, b, *r, **k):
        if Session.active and (is_sym(a) or is_sym(b)):
            return _wrap(_np.bitwise_or(_objify(a), _objify(b)))
        return _np.logical_or(a, b, *r, **k)

    def nonzero(self, a):
        if Session.active and is_sym(a):
            return _np.nonzero(sa(a).astype(bool))
        return _np.nonzero(a)

    def flatnonzero(self, a):
        if Session.active and is_sym(a):
            return _np.flatnonzero(sa(a).astype(bool))
        return _np.flatnonzero(a)

    def count_nonzero(self, a, *r, **k):
        if Session.active and is_sym(a):
            return int(_np.count_nonzero(sa(a).astype(bool)))
        return _np.count_nonzero(a, *r, **k)

    def vstack(self, tup, **k):
        return _wrap(_np.vstack([_objify(x) if is_sym(x) else x for x in tup], **k))

    def hstack(self, tup, **k):
        return _wrap(_np.hstack([_objify(x) if is_sym(x) else x for x in tup], **k))

    def concatenate(self, tup, *a, **k):
        return _wrap(_np.concatenate([_objify(x) if is_sym(x) else x for x in tup], *a, **k))

    def stack(self, tup, *a, **k):
        return _wrap(_np.stack([_objify(x) if is_sym(x) else x for x in tup], *a, **k))

    def insert(self, arr, obj, values, axis=None):
        if Session.active and (is_sym(values) or is_sym(arr)):
            return _wrap(_np.insert(_np.asarray(arr, dtype=object), obj,
                                    _np.asarray(values, dtype=object), axis=axis))
        return _np.insert(arr, obj, values, axis=axis)

    def linspace(self, start, stop, num=50, endpoint=True, **k):
        if Session.active and (is_sym(start) or is_sym(stop)):
            num = int(num)
            div = (num - 1) if endpoint else num
            out = _np.empty(num, dtype=object)
            for i in range(num):
                out[i] = start + (stop - start) * i / div if div else start
            if endpoint and num > 1:
                out[-1] = stop
            return out.view(SymArr)
        return _np.linspace(start, stop, num, endpoint=endpoint, **k)

    def meshgrid(self, *xi, **k):
        r = _np.meshgrid(*[_objify(x) if is_sym(x) else x for x in xi], **k)
        return [_wrap(x) for x in r]

    def prod(self, a, *r, **k):
        return _wrap(_np.prod(a, *r, **k))

    def tile(self, a, reps):
        return _wrap(_np.tile(a, reps))

    def repeat(self, a, *r, **k):
        return _wrap(_np.repeat(a, *r, **k))

    def reshape(self, a, *r, **k):
        return _wrap(_np.reshape(a, *r, **k))

    def ravel(self, a, *r, **k):
        return _wrap(_np.ravel(a, *r, **k))

    def dot(self, a, b, **k):
        return _wrap(_np.dot(a, b, **k))

    def sum(self, a, *r, **k):
        if Session.active and isinstance(a, (list, tuple)) and is_sym(a):
            a = sa(a)
        return _wrap(_np.sum(a, *r, **k))

    def outer(self, a, b, **k):
        return _wrap(_np.outer(a, b, **k))

    def einsum(self, *a, **k):
        if Session.active and any(is_sym(x) for x in a[1:]):
            k.pop("optimize", None)
            return _wrap(_np.einsum(a[0], *[_objify(x) for x in a[1:]], **k))
        return _np.einsum(*a, **k)

    def power(self, a, b, *r, **k):
        if isinstance(a, SReal) or isinstance(b, SReal):
            return a ** b
        return _wrap(_np.power(a, b, *r, **k))



npproxy = NPProxy()
