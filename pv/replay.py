"""Clean-process replay of a stored counterexample against the real code.

Exit 1 = the violation reproduces, 0 = it does not."""
import importlib
import json
import sys


def main():
    with open(sys.argv[1]) as f:
        blob = json.load(f)
    mod = importlib.import_module(blob["module"])
    violated, detail = mod.replay_case(blob["case"])
    print(json.dumps({"violated": bool(violated), "detail": detail}, default=str))
    return 1 if violated else 0


if __name__ == "__main__":
    sys.exit(main())
