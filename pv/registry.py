"""Single source for MANIFEST.json: claimed checks and not-applicable properties."""

CLAIMED = {
    # pid: (level text, level_note, technique, design_ref)
    "C09": (
        "Bounded symbolic execution of the real TimeManager (constructor, compute_time_step, "
        "increase_time, final_time_reached) in the driver order of run_time_dependent_model for "
        "K steps with symbolic schedule, dt_init, dt_min, dt_max and iteration counts; every "
        "failure pattern is a shard. Each accepted/failed step carries SMT obligations "
        "(monotone times, no overshoot, every passed scheduled time hit, dt bounds, clock reset); "
        "z3 decides them for all real inputs on each path; counterexamples are replayed on the "
        "float code, every path witness is replayed in exact rational arithmetic on the real class.",
        "Floats as exact reals; schedule gaps and dt_min >= 2^-10, final time <= 64; violations must "
        "exceed the tolerance band by 2^-20; K <= 4 (quick) / 6 (thorough) driver steps, 2-6 "
        "scheduled points; np.isclose modelled by its documented formula.",
        "symbolic execution of TimeManager on z3 reals/ints + SMT (z3, cvc5 fallback)",
        "DESIGN.md section 6 C09",
    ),
}

CLAIMED["C01"] = (
    "Inductive step per AdArray overload and per AD library function: the real forward_mode/"
    "functions code runs on AdArrays with arbitrary symbolic values and arbitrary symbolic "
    "Jacobians; z3 decides, entry by entry, value = numpy expression and Jacobian = chain rule "
    "with partial derivatives from an independent symbolic differentiator (elementary functions "
    "as uninterpreted symbols with the textbook derivative table). Structural induction lifts the "
    "step to all expression trees; bounded depth-2 composites from initAdArrays are checked too. "
    "Path witnesses are replayed on the real float code with the true functions; counterexamples "
    "are realised at a concrete point and confirmed against finite differences.",
    "Floats as exact reals; smooth-domain assumptions per operation (listed in the evidence samples); "
    "n<=3 values, m<=3 Jacobian columns; UF derivative table and sqrt definition are trusted; "
    "heaviside/characteristic_function derivative defined as 0.",
    "symbolic execution of AdArray/functions on z3 terms + independent symbolic differentiation + SMT",
    "DESIGN.md section 6 C01",
)

CLAIMED["C02"] = (
    "Operator trees (all depth-1 programs over every leaf kind and operand order incl. Python numbers "
    "and numpy arrays on the left, time/iterate shifts, wrapped functions, sparse products; sampled / "
    "sharded depth-2 programs) are built with the real pp.ad classes on a real fractured md-grid and "
    "evaluated by the real EquationSystem.evaluate/AdParser on a symbolic state, symbolic stored "
    "histories and symbolic array/matrix coefficients. z3 decides per entry: value (with and without "
    "derivative) = reference interpreter on value arrays, Jacobian = independent symbolic derivative "
    "(so previous-time/iterate subtrees contribute zero columns), and type-admissible programs evaluate.",
    "Floats as exact reals (two-stage exact/1e-9-tolerance equality for interpreter-rounded scalars); "
    "values in [1/2,2], divisors and power bases bounded away from 0; one 10-dof md-grid; depth <= 2; "
    "hash keys stubbed for symbolic leaf data.",
    "symbolic execution of the AD parser/operators on z3 terms + reference interpreter + symbolic differentiation + SMT",
    "DESIGN.md section 6 C02",
)

CLAIMED["C08"] = (
    "The real set/get/shift_solution_values helpers and the EquationSystem wrappers are executed on "
    "symbolic value arrays: (1) one shift from an arbitrary valid storage state with symbolic number of "
    "stored levels and symbolic max_index (solver-driven case split) against the post-state relation; "
    "(2) every history of write rounds, additive writes, bare shifts, overwrites and reads up to the "
    "bound, for depths 1-3 and unbounded, against a sliding-window reference, with aliasing probes "
    "(caller arrays and returned arrays are overwritten with fresh symbols afterwards). z3 decides "
    "every stored/read entry for all written values; sampled witnesses and all counterexamples are "
    "replayed on the float code.",
    "Floats as exact reals; histories <= 4 ops (quick) / 6 (thorough); arrays of length 2 / the 10-dof "
    "equation system; storage never pre-populated beyond the depth.",
    "symbolic execution of the history helpers on z3 terms vs sliding-window reference + SMT",
    "DESIGN.md section 6 C08",
)

CLAIMED["C35"] = (
    "The real zero_rows/zero_columns, merge_matrices, stack_mat, stack_diag, slice_indices, slice_sparse_matrix, "
    "cs{r,c}_matrix_from_sparse_blocks, cs{r,c}_matrix_from_dense_blocks, sparse_kronecker_product, rldecode and "
    "rlencode (expand_index_pointers underneath) are executed on matrices / arrays whose stored VALUES are symbolic "
    "reals (one symbol per structural position, explicit zeros included) for every sparsity pattern, format (csr/csc, "
    "coo blocks), index set (arrays with repeats, boolean masks, int, numpy int) and count vector within the bound; "
    "rlencode forks on the symbolic column equalities. z3 decides entry-wise equality with the equivalent dense numpy "
    "operation on the same symbols (A[lines]=B, vstack/hstack, block_diag, A[ind], np.repeat, np.kron), plus "
    "format / pattern bookkeeping; witnesses and counterexamples are replayed on real scipy matrices.",
    "Floats as exact reals; patterns, formats and index sets are enumerated / seeded, not symbolic (shapes up to 3x3 "
    "quick, 4x4 thorough; up to 3 blocks; count vectors up to length 4); the INPUT compressed storage is canonical "
    "(sorted, duplicate-free) - unsorted inputs, sparse_dia_from_sparse_blocks, expand_indices_nd and "
    "optimized_compressed_storage are outside.",
    "symbolic execution of the sparse utilities on z3 terms vs dense numpy reference + SMT",
    "DESIGN.md section 10.8 C35",
)

CLAIMED["C36"] = (
    "The real ArraySlicer (constructor variants, __matmul__, _slice_vector, _slice_matrix incl. the "
    "compressed-storage arithmetic, transpose, pending-operation dunders) is executed on symbolic "
    "operands - vectors, 2-d arrays, sparse matrices, AdArrays with arbitrary Jacobians, scalars - for "
    "every injective index set within the bound and for sampled chains S0 @ S1 @ y, A @ S @ y, "
    "c*S@y, c-S@y, c/S@y, c**S@y. z3 decides entry-wise equality with the explicit 0/1 projection "
    "matrix applied to the same symbols; witnesses and counterexamples are replayed on float code.",
    "Floats as exact reals; index sets are enumerated, not symbolic (k<=2 of 3 quick, k<=3 of 4 thorough; "
    "chains up to length 3); numpy arrays as left operand of pending operations are documented as unsupported.",
    "symbolic execution of ArraySlicer on z3 terms vs explicit projection matrix + SMT",
    "DESIGN.md section 6 C36",
)

CLAIMED["C40"] = (
    "SecondOrderTensor / FourthOrderTensor constructors, rotate, restrict_to_cells and copy are executed on "
    "symbolic cell-wise parameters. z3 decides: symmetry and entry placement; admissibility (the constructor "
    "raises exactly when a leading minor is negative - its own tests fork the paths); rotate = R K R^T with "
    "trace, second invariant and determinant unchanged, for symbolic planar rotations (c,s with c^2+s^2=1) "
    "about each axis and exact rational 3-D rotations; the Lame form C_ijkl of the fourth-order tensor; "
    "restriction picks the requested cells of values and parameter fields; copies and originals stay "
    "independent when the other is overwritten with fresh symbols.",
    "Floats as exact reals; 2 cells (3 for restriction); rotation matrices exactly orthogonal; eigenvalue "
    "preservation is checked through the three invariants of the characteristic polynomial.",
    "symbolic execution of the tensor classes on z3 terms + SMT (nonlinear real arithmetic)",
    "DESIGN.md section 6 C40",
)

CLAIMED["C43"] = (
    "Units.convert_units, the derived units Pa/J/N/W/degree and the material-constant conversion "
    "(Constants.__post_init__/to_units for FluidComponent and SolidConstants) are executed with symbolic "
    "positive base scalings and symbolic values for unit strings of the documented grammar (all single "
    "factors, sampled/all pairs, sampled triples; exponents -3..3). z3 decides: round trips in both "
    "directions, composition (factor-by-factor = composed string, split conversion), exponent semantics, "
    "whitespace insensitivity, array conversion element-wise without modifying the input, derived units = "
    "their base-unit expressions, constants converted and converted back to their SI values, and "
    "conversion to a second symbolic unit system. Only the conversion clauses of the property are claimed.",
    "Floats as exact reals; scalings in [1/64,64]; <=3 factors; integer exponents; the clause 'a flow model run "
    "with scaled units gives the same SI solution' is outside (whole simulation incl. spsolve).",
    "symbolic execution of Units/Constants on z3 reals + SMT (nonlinear real arithmetic)",
    "DESIGN.md section 6 C43",
)

CLAIMED["C42"] = (
    "_compute_saturations (2, 3, 4 phases; its own vanished/saturated branches fork the paths), the vectorised "
    "compute_saturations, chainrule_fractional_derivatives (scalar and vectorised) and normalize_rows - numba "
    "sources executed as Python - run on symbolic fractions on the simplex, symbolic positive densities and "
    "symbolic gradients. z3 decides s >= 0, sum s = 1 and y_j * sum_k rho_k s_k = rho_j s_j on every path; the "
    "chain rule against an independent symbolic derivative of x_i / sum(x) for an arbitrary gradient; rows "
    "summing to one. The small linear solve is the exact cofactor solution (n <= 3) under det != 0.",
    "Floats as exact reals; vanishing phases have y = 0 and saturated phases y = 1 exactly, other fractions in "
    "(eps, 1-eps), eps = 2^-10; densities in [1/8, 8]; 4 phases only in the thorough tier (solve contract stub).",
    "symbolic execution of the numba kernels (as Python) on z3 terms + SMT (nonlinear real arithmetic)",
    "DESIGN.md section 6 C42",
)

CLAIMED["C34"] = (
    "uniquify_point_set and _unique_points_in_cluster (numba source run as Python) are executed on symbolic "
    "point coordinates with a concrete tolerance; the norm sort, the norm clustering and the within-tolerance "
    "tests fork the paths, which are explored exhaustively within the bound. Under the property's clustering "
    "precondition z3 decides on every path: two points share a class iff they are close, the representative "
    "is the first member, classes appear in order of first occurrence, unique point values equal their "
    "representatives. One genuine defect (norm-cluster straddle) is a recorded known finding, matched by a "
    "predicate on the inputs; any other violation is still reported. Only the uniquification clause is claimed.",
    "Floats as exact reals; tol = 1/8; coordinates in [-4,4]; (N points, D dims) in {(2,1),(3,1),(2,2)} quick, "
    "+ (4,1),(3,2),(2,3) thorough; ismember_columns / intersect_sets are outside (integer np.unique, KD-tree).",
    "symbolic execution of the uniquify kernels on z3 reals (sqrt as defined variables) + SMT",
    "DESIGN.md section 6 C34",
)

CLAIMED["C03"] = (
    "Each shipped model (SinglePhaseFlow, MassAndEnergyBalance, MomentumBalance, Poromechanics, "
    "Thermoporomechanics; unfractured and with one Cartesian fracture, incl. the contact-mechanics "
    "complementarity equations) is prepared concretely and EquationSystem.assemble is executed on a symbolic "
    "state, symbolic previous-time values and the same symbols stored as current iterate. The real parser, "
    "constitutive laws and forward-mode AD produce residual and Jacobian terms; non-smooth operators "
    "(maximum, characteristic functions, norms) fork on the code's own comparisons and every feasible branch "
    "is explored. z3 decides J_ij = -d b_i/d x_j for every entry (independent symbolic differentiator; exp as "
    "an uninterpreted symbol with range axioms) and residual-only assembly = b. Witnesses are replayed on the "
    "float model; counterexamples are confirmed by central differences of the real assembled residual.",
    "Floats as exact reals (two-stage exact / 1e-9 tolerance equality); discretization matrices fixed at prepared "
    "values; 2x2 Cartesian grids, <= 1 fracture; state within +-1 of the initial state; quick tier: 5 unfractured/"
    "flow configurations, thorough: all 9 incl. contact mechanics (path budget 64 per model in quick).",
    "symbolic execution of model assembly on z3 terms + symbolic differentiation + SMT",
    "DESIGN.md section 6 C03",
)

CLAIMED["C04"] = (
    "SinglePhaseFlow and MassAndEnergyBalance on closed (homogeneous Neumann) unit squares with 0, 1 and 2 "
    "crossing Cartesian fractures, compressible and incompressible fluid, are prepared concretely; the mass "
    "and energy balance residuals are evaluated by the real model code (constitutive laws, upwinding, MPFA, "
    "mortar projections, parser) on a symbolic state - pressures, temperatures and interface fluxes arbitrary, "
    "not converged - and symbolic previous-time values. z3 decides that the sum of the residual over all cells "
    "of all subdomains equals the rate of change of the accumulated quantity (fluid mass / total internal "
    "energy evaluated through the same operators), i.e. all inter-cell and interface fluxes cancel, through "
    "both the value path and the AdArray path.",
    "Floats as exact reals (two-stage exact / 1e-9 tolerance); discretization matrices fixed at prepared values; "
    "2x2 Cartesian grids; state within +-1 of the initial state; exp uninterpreted with range axioms; simplex "
    "grids and 3 fractures are outside (gmsh / size).",
    "symbolic execution of model residual evaluation on z3 terms + SMT",
    "DESIGN.md section 6 C04",
)

CLAIMED["C10"] = (
    "The real run_time_dependent_model, NewtonSolver.solve, the SolutionStrategy callbacks "
    "(before_nonlinear_loop, after_nonlinear_iteration/convergence/failure, update_solution) and the adaptive "
    "TimeManager run on a prepared SinglePhaseFlow model whose linear solve returns fresh symbolic increments "
    "and whose convergence check returns symbolic (converged, diverged) flags - the fault injector; every "
    "flag pattern within the bound is explored (the driver's own branches fork the paths). After every solve "
    "z3 decides, for all increments: converged => stored time-step values = current iterate = initial iterate "
    "+ sum of increments; failed => iterate and time-step values = last accepted solution and clock = last "
    "accepted time; deeper history levels = earlier accepted solutions; the run ends at the final time with the "
    "last accepted solution stored, or raises only once the recomputation budget is exhausted.",
    "Floats as exact reals; concrete dyadic time-manager parameters; <= 3 Newton iterations per solve, <= 4 solves "
    "(quick) / 6 (thorough); linear-system assembly, re-discretization and export are stubs; a step never reports "
    "converged and diverged together.",
    "symbolic execution of the simulation driver with nondeterministic environment stubs + SMT",
    "DESIGN.md section 6 C10",
)

CLAIMED["C05"] = (
    "Create/remove histories of variables (on all / some / reversed subdomain lists, on interfaces, with cell, "
    "face and node dof multiplicities; removal of md-variables and of single sub-variables) are enumerated "
    "within the bound and run on the real EquationSystem. Per history the layout clauses are evaluated on the "
    "concrete index arrays (blocks contiguous, ordered by subdomain, interface, creation; identify_dof for "
    "every index; out-of-range rejected) and z3 decides, for all values, that projections select exactly the "
    "block indices of a symbolic vector, that set/get round-trips for all and for subsets of variables in "
    "global order, that writing a subset leaves the other dofs untouched, and additive writes. Stated "
    "plainly: the layout part is bounded-exhaustive exploration of histories, the value part is for-all.",
    "Floats as exact reals; one fractured md-grid (3 grids); histories of length <= 2 exhaustive, length 3 sampled "
    "(quick) / exhaustive (thorough), length 4 sampled (thorough).",
    "symbolic execution of the dof bookkeeping with symbolic values + SMT; case split on histories",
    "DESIGN.md section 6 C05",
)
CLAIMED["C06"] = (
    "A real EquationSystem with three nonlinear equations (symbolic coefficient arrays and matrices) on a "
    "fractured md-grid is assembled on a symbolic state in full and for every selection within the bound: "
    "all ordered subsets of equation names (argument order permuted), grid restrictions of an equation (incl. "
    "empty and reordered grid lists), variable subsets (md-variables, single sub-variables, reordered). z3 "
    "decides entry-wise that the restricted Jacobian and residual are exactly the rows/columns of the full "
    "ones, with row blocks in the order the equations were set; reported row indices per equation and "
    "residual-only assembly are checked too.",
    "Floats as exact reals; one equation system (14 rows, 10 dofs); selections are enumerated (case split), "
    "entries are symbolic.",
    "symbolic execution of EquationSystem.assemble on z3 terms + SMT; case split on selections",
    "DESIGN.md section 6 C06",
)
CLAIMED["C07"] = (
    "assemble_schur_complement_system and expand_schur_complement_solution run on a square nonlinear system "
    "with symbolic coefficients and state for several primary/secondary splits (whole equations, swapped "
    "argument order, grid-restricted primary equation), with an exact diagonal inverter and with the default "
    "permuted-block-diagonal inverter (block inverse = exact cofactor inverse under det != 0). For an "
    "ARBITRARY symbolic reduced vector x_p z3 decides the identities (J X - b)[secondary rows] = 0 and "
    "(J X - b)[primary rows] = S x_p - rhs_S for the expanded X, hence solving the reduced system and "
    "expanding solves the full linearized system. Counterexamples are confirmed by comparing the expanded "
    "reduced solve with the full numpy solve.",
    "Floats as exact reals; secondary block diagonal with non-zero entries; one 10-dof system; 4 splits.",
    "symbolic execution of the Schur complement assembly/expansion on z3 terms + SMT",
    "DESIGN.md section 6 C07",
)

CLAIMED["C37"] = (
    "invert_diagonal_blocks (numba source run as Python, and the python path; CSR and CSC), block_diag_matrix / "
    "block_diag_index, generate_permutation_to_block_diag_matrix and invert_permuted_block_diag_matrix are "
    "executed on block-diagonal and row/column-permuted block-diagonal matrices with symbolic block entries, for "
    "every block-size vector within the bound. z3 decides A * inv = I and inv * A = I entry-wise for all "
    "non-singular block values (the per-block inverse is the exact cofactor inverse, i.e. the contract of "
    "np.linalg.inv), that the inverse stays within the block pattern, and the computed permutation exposes "
    "square blocks of the constructed sizes.",
    "Floats as exact reals; blocks of size 1-3 (the property's 4-6 are outside), <= 3 blocks; permutations "
    "sampled; numerical conditioning outside.",
    "symbolic execution of the block inverters on z3 terms + SMT",
    "DESIGN.md section 6 C37",
)

CLAIMED["C41"] = (
    "InterpolationTable (construction, interpolate, gradient, base-vertex search, weights) and "
    "AdaptiveInterpolationTable (on-demand evaluation through its sparse storage) are executed with symbolic box "
    "limits, symbolic multilinear coefficients and a symbolic query point anywhere in the closed box; the "
    "base-vertex index forks the paths (every cell and the upper boundary are separate paths). z3 decides: the "
    "interpolant equals the multilinear function, the gradient is exact for linear functions, vectorised "
    "queries agree with single ones, the adaptive table agrees with the standard table (value, second cached "
    "query, gradient), and no query inside the box raises.",
    "Floats as exact reals; 1-2 parameters with 2-3 points per axis (quick), up to 3 parameters / 4 points "
    "(thorough); adaptive table on a dyadic grid; scalar-valued tables.",
    "symbolic execution of the interpolation tables on z3 terms (floor as integer case split) + SMT",
    "DESIGN.md section 6 C41",
)

CLAIMED["C46"] = (
    "SparseNdArray.add / get are executed for enumerated and sampled histories of up to three batches of integer "
    "coordinates (duplicates inside and across batches, additive and overwriting, 1-2 dimensions, scalar and "
    "2-vector values) with SYMBOLIC stored values, against a Python dictionary maintained by the harness. z3 "
    "decides, for all values, that every single and multi-coordinate read returns the dictionary's value; "
    "reads of never-inserted coordinates must raise; no coordinate is stored twice. Stated plainly: the "
    "coordinate part is a case split (a symbolic integer would be concretised by np.unique / the KD-tree).",
    "Floats as exact reals; coordinates in a 3-point box per axis; <= 3 batches of <= 2 points.",
    "symbolic execution of SparseNdArray with symbolic values + SMT; case split on coordinates",
    "DESIGN.md section 6 C46",
)

CLAIMED["C12"] = (
    "Tpfa.discretize is executed on symbolic cell-wise permeability (full SPD, diagonal, constant), symbolic "
    "tensor-grid spacings and a symbolic linear pressure field for enumerated boundary-type assignments on a "
    "1-d grid, a 2x2 Cartesian grid and a 2-triangle grid. z3 decides: div*flux symmetric, interior face "
    "fluxes single-valued (row sums vanish), constant pressure with matching Dirichlet data gives zero flux "
    "on every face; for diagonal permeability positive diagonal and non-positive off-diagonals; for constant "
    "permeability flux*p + bound_flux*p_b equals the exact Darcy flux of a linear pressure on every face with "
    "mixed Dirichlet/Neumann data. The MPFA-agreement clause is outside (MPFA is not encodable).",
    "Floats as exact reals; topology and boundary assignments enumerated (4 per topology quick, 16 thorough); "
    "tensor-grid geometry assigned analytically from (dx, dy); 2-d only.",
    "symbolic execution of Tpfa.discretize on z3 terms + SMT (rational arithmetic)",
    "DESIGN.md section 6 C12",
)

CLAIMED["C17"] = (
    "Upwind.discretize is executed on symbolic face fluxes; its own sign tests fork the paths, so every sign "
    "pattern of the fluxes is a path, for enumerated Dirichlet/Neumann assignments of the boundary faces and 1-2 "
    "components. Per path the upwind, Dirichlet-inflow and Neumann matrices are compared with an independent "
    "oracle built from the cell-face signs (upstream cell on interior and outflow faces, no cell on Neumann and "
    "Dirichlet-inflow faces, boundary data only there, Kronecker expansion per component). For the transport "
    "clause z3 decides, for all divergence-free interior fluxes, volumes, concentrations and time steps below "
    "the CFL limit on a closed 2x2 grid, that an explicit step conserves the total amount and keeps every cell "
    "value within the initial bounds.",
    "Floats as exact reals; grids: 3-cell line, 2x1 and 2x2 Cartesian; non-zero fluxes for the selection clause; "
    "boundary assignments enumerated (4-7 per grid).",
    "symbolic execution of Upwind.discretize on z3 terms (sign forks) + SMT",
    "DESIGN.md section 6 C17",
)

CLAIMED["C24"] = (
    "Operation histories (add subdomain in any order, add interface with either pair order, remove subdomain, "
    "replace subdomain by a copy) over the real grids and mortar grids of a 2-fracture md-grid (dims 2,1,1,0) are "
    "enumerated / sampled and run on the real MixedDimensionalGrid, with the grid, replacement and interface "
    "ids replaced by DISTINCT SYMBOLIC integers: the sorting code forks on id comparisons, so every id order is "
    "explored and z3 decides sortedness (decreasing dimension, then increasing id) for all id values. After "
    "every operation: each present object listed exactly once, interface <-> (higher, lower) subdomain pair maps "
    "in both directions, subdomain-to-interfaces, removal deletes exactly the removed subdomain's interfaces and "
    "boundary grid, one boundary grid per positive-dimensional subdomain, dimension filters, and no admissible "
    "operation raises.",
    "Histories of length <= 3 exhaustive, 4 (quick) / 5 (thorough) sampled; replacement only of subdomains without "
    "attached interfaces (mortar re-matching is C26); 2-d md-grid.",
    "symbolic execution of the container with symbolic grid ids + SMT; case split on histories",
    "DESIGN.md section 6 C24",
)

CLAIMED["C19"] = (
    "Grid.compute_geometry (1-d and 2-d paths, compute_tangent) is executed on Cartesian, structured-triangle and "
    "tensor grids with concrete topology in which 1-3 nodes (1-d: all nodes) are displaced by SYMBOLIC amounts. For all "
    "displacements in the box the solvers decide: cell volumes are positive, equal the polygon area of the cell "
    "(shoelace formula on the node loop) and sum to the domain measure; face areas equal the node distance and the "
    "normal length; face centres are midpoints; sign * normal points out of the cell; the signed normals of every "
    "cell sum to zero; sum sign (x_f . n_f) = dim * V and sum sign (x_f . n_f) x_f = (dim+1) V x_c.",
    "Node displacements in [-1/8, 1/8]^2 on unit-size cells (cells stay convex); at most 3 displaced nodes at a "
    "time (2x2 Cartesian, 2x2 triangle, thorough also 3x2 Cartesian; the same grids with reversed face-node order "
    "(fallback branch for inconsistently oriented grids) and 3x3 triangulations with one interior triangle listed "
    "clockwise); 1-d grids with 3-5 cells (cells as short as 2^-30) on the x-axis; 3-d "
    "grids and embedded grids are outside. Equalities: z3 (nonlinear real arithmetic, on the cone of influence of "
    "the claim first); strict inequalities that hold with a margin: interval branch-and-bound with outward "
    "rounding (dReal-style, own implementation, mean-value form using the symbolic differentiator), z3 otherwise.",
    "symbolic execution of the real Python source over real terms + SMT (z3 nlsat) + interval branch-and-bound for "
    "inequalities",
    "DESIGN.md section 6 C19",
)

CLAIMED["C30"] = (
    "distances.points_segments (both loop orders) and point_pointset are executed on SYMBOLIC point and segment "
    "coordinates in 2-d and 3-d; the three cases of the projection parameter fork the paths. z3 decides for all "
    "coordinates that the returned distance is non-negative and equals the Euclidean distance to the returned "
    "closest point, that the closest point lies on the segment, and that no point of the segment is closer "
    "(variational inequality of the projection onto a convex set, evaluated at both end points). "
    "segment_segment_set is executed in 3-d on SYMBOLIC segment positions for ten enumerated direction configurations "
    "(skew, crossing, parallel, antiparallel, sets of two, and ill-scaled ones: a shallow crossing next to a 128 times "
    "longer set member, a 2^-10-long segment against a unit segment, a 64-long one against a unit one); all clamping "
    "cases fork; z3 decides that both closest points lie on their segments, that the distance is their Euclidean "
    "distance and that no pair of points is closer (KKT conditions of the convex problem on [0,1]^2).",
    "Point-point and point-segment kernels: 2-d with 1-2 points and 1-2 segments, 3-d with one point and one "
    "segment. Segment-segment kernel: directions enumerated, not symbolic (positions in [-2,2]^3), under the stated "
    "assumption that no candidate numerator of a line parameter lies in (0, 2*SMALL_TOLERANCE), the slab where the "
    "code snaps parameters to 0 on purpose. segment_set, the polygon and overlap routines (rotation-based "
    "projections) and pointset (scipy cdist) are outside.",
    "symbolic execution of the real Python source over real terms + SMT (z3 nlsat)",
    "DESIGN.md section 6 C30",
)

CLAIMED["C31"] = (
    "point_in_polygon is executed on a family of integer polygons (convex, non-convex, with a hanging node, both "
    "orientations and start vertices) with SYMBOLIC REAL test points (one or two per call): on every path z3 decides "
    "for all points of [-1,5]^2 that the result equals the crossing-number oracle off the boundary and the `default` "
    "value on it. is_ccw_polyline (symbolic points, two tolerances) is compared with the orientation determinant, "
    "is_ccw_polygon with the orientation of symbolic convex polygons, point_inside_half_space_intersection with the "
    "conjunction of the half-space inequalities (symbolic offsets and points), and sort_point_pairs is shown to "
    "return a valid closed chain using every input segment once for symbolic distinct labels.",
    "Polygons are concrete (case split), points symbolic; point_in_polyhedron (arctan2 solid angles), the linprog / "
    "Qhull based half-space helpers and the helpers that normalise by square roots / rotate by arccos angles "
    "(points_are_planar, points_are_collinear, sort_points_on_line, sort_point_plane) are outside.",
    "symbolic execution of the real Python source over real / integer terms + SMT (linear and nonlinear real arithmetic)",
    "DESIGN.md section 6 C31",
)

CLAIMED["C23"] = (
    "refine_grid_1d (ratios 2-4), remesh_1d, refine_triangle_grid and extrude_grid (0d->1d, 1d->2d) are executed on "
    "grids with SYMBOLIC node coordinates / extrusion layers; the geometry of the new grids comes from the real "
    "compute_geometry on the symbolic nodes. The solvers decide for all coordinates: cell counts, total measure "
    "preserved (times the extrusion height), positive measure of every new cell, every new 1-d cell inside exactly "
    "one old cell and the children filling it, the returned parent / cell maps assigning every new cell to exactly "
    "one parent whose measure the children sum to, and child centres inside the parent.",
    "1-d grids with 2-4 cells on the x-axis; one or two triangles with vertices displaced by <= 1/8; 2-3 extrusion "
    "layers; structured_refinement, the md-grid refinement drivers, 2d->3d extrusion and oblique embeddings are "
    "outside. Inequalities with a margin are discharged by interval branch-and-bound, the rest by z3.",
    "symbolic execution of the real Python source over real terms + SMT (z3 nlsat) + interval branch-and-bound for "
    "inequalities",
    "DESIGN.md section 6 C23",
)

CLAIMED["C20"] = (
    "compute_geometry is executed on a grid with SYMBOLIC node displacements and on its image under x -> R x + t with "
    "a SYMBOLIC translation t and R from seven exact rational proper rotations (in-plane 90 degrees and 3-4-5, "
    "embeddings of the planar grid in the xz-plane and in two tilted planes, a rotation reversing the plane normal; "
    "1-d grids on the rotated lines). z3 decides for all translations and displacements that cell volumes and face "
    "areas are unchanged, that cell and face centres are mapped by the motion and that the face normals are mapped "
    "by R.",
    "Rotations restricted to rational matrices (a symbolic rotation angle leads to the nested square roots of DESIGN.md "
    "10.5); 2x2 Cartesian / triangle grids with one displaced node, 1-d grids with 3 cells; no 3-d grids.",
    "symbolic execution of the real Python source over real terms + SMT (z3 nlsat) + interval branch-and-bound for "
    "inequalities",
    "DESIGN.md section 6 C20",
)

CLAIMED["C22"] = (
    "extract_subgrid is executed on Cartesian and structured-triangle grids with 1-2 SYMBOLIC node displacements for "
    "enumerated cell subsets (connected or not, sorted or unsorted). For all displacements: the copied geometry is "
    "the parent's on the selected cells / faces, the geometry RECOMPUTED by compute_geometry on the extracted "
    "topology and symbolic nodes equals the parent's (volumes, centres, face areas, face centres, normals), node "
    "coordinates are the parent's; the face and node maps point to exactly the parent faces (with signs) and nodes "
    "(in order) of each selected cell.",
    "Extraction clause only (cells): the partitioners and overlap work on concrete integer arrays (enumeration, "
    "nothing for a solver), extraction from faces and 3-d grids are outside; 2x2 grids, cell subsets sampled in the "
    "quick tier.",
    "symbolic execution of the real Python source over real terms + SMT (z3), case split on cell subsets",
    "DESIGN.md section 6 C22",
)

CLAIMED["C27"] = (
    "SubdomainProjections (cell and face restriction / prolongation), MortarProjections (all eight maps and the "
    "side-sign matrix) and BoundaryProjection are built by the real code for ordered lists (all orders and sub-"
    "lists, sampled in the quick tier) of the grids of a 2-fracture md-grid and vector dimensions 1-3, and applied "
    "to SYMBOLIC vectors: z3 decides for all vectors that restriction after prolongation is the identity, that "
    "prolongations of all listed grids place their blocks in list order (a permutation of the global vector), "
    "that sub-list restrictions concatenate blocks in the order asked, that every global mortar projection "
    "equals the per-interface projection placed at the global face / cell / mortar offsets, and that the "
    "boundary projection consists of the per-grid boundary projections.",
    "Exact rational arithmetic on concrete projection matrices; one md-grid with matching mortar grids; grid lists "
    "enumerated (case split).",
    "application of the real projection operators to symbolic vectors + SMT (linear arithmetic)",
    "DESIGN.md section 6 C27",
)

CLAIMED["C28"] = (
    "segments_2d and segments_3d are executed on pairs of segments whose direction vectors are enumerated (explicit "
    "case split over all integer directions of the box) and whose positions are SYMBOLIC integers: the code's "
    "tolerance tests fork the paths, and on every path z3 decides for all positions that the result (None / one "
    "point / two end points, and the coordinates) equals the exact classification written with cross and dot "
    "products of the integer data (parallel / collinear / touching / overlapping / skew / coplanar crossing), and "
    "that this classification does not depend on the argument order.",
    "Integer coordinates in [-2,2]^2 and [-1,1]^3 (quick), [-4,4]^2 and [-2,2]^3 (thorough); directions are "
    "concrete per case (a fully symbolic encoding is mixed integer/real nonlinear arithmetic, which neither z3 nor "
    "cvc5 decided within 15 minutes per path - DESIGN.md section 10.2); floats as exact reals.",
    "symbolic execution of the real Python source over integer terms + SMT (linear integer/real arithmetic), case "
    "split on directions",
    "DESIGN.md section 6 C28",
)

CLAIMED["C33"] = (
    "line_tessellation (through segments_3d) and match_1d are executed on two tessellations of one segment with "
    "SYMBOLIC interior nodes and length; node coincidences / orderings are separate paths forked by the code's own "
    "comparisons. z3 decides for all node positions that overlaps are non-negative, equal the exact overlap "
    "length of every cell pair, sum to the cell lengths for both tessellations, that 'averaged' rows and "
    "'integrated' columns of match_1d sum to one and that all weights are non-negative.",
    "1-3 cells per side; nodes coincide exactly or are >= 1/64 apart (far from the 1e-8 tolerance); segment along "
    "the x-axis and along (3/5,4/5,0); triangulations / surface_tessellations / match_2d (shapely) are outside.",
    "symbolic execution of the real Python source over real terms + SMT (nonlinear real arithmetic)",
    "DESIGN.md section 6 C33",
)

NOT_APPLICABLE = {
    "C11": "MPFA local systems are inverted in LAPACK/numba kernels on data-dependent block structures; a symbolic inverse of the interaction-region blocks is beyond z3/cvc5 and with concrete matrices nothing quantified remains for a solver.",
    "C13": "MPSA: same obstacle as C11 with 2-3x larger local systems.",
    "C14": "Compares concrete discretization matrices across partitions/inverter back ends; the quantifier is discrete (splits, update sets): enumeration, not solving.",
    "C15": "Biot coupling matrices are by-products of the MPSA local inversion (C13).",
    "C16": "TPSA assembly runs on scipy sparse-array kernels and its second clause needs spsolve of the full system; not encodable within reach.",
    "C18": "RT0/MVEM exactness needs the saddle-point solve (spsolve); SPD-ness for symbolic geometry is a quantified nonlinear inequality on top of einsum/linalg kernels.",
    "C32": "rotation_matrix / project_plane_matrix / compute_normal / 3-d TangentialNormalProjection on symbolic directions produce towers of 3-4 nested square roots; z3 needed minutes per orthogonality obligation or did not return (harness pv/props/c32.py kept, unregistered; DESIGN.md 10.5).",
    "C21": "Quantifies over grid topologies only; all inputs are concrete index arrays processed by compiled scipy kernels - nothing for a solver to decide.",
    "C25": "Meshing pipeline (gmsh, structured splitting on concrete integer topology, np.unique/sort kernels); geometry is concrete once meshed.",
    "C26": "Mortar projections are built from a complete fractured md-grid (C25 pipeline) and grid replacement; the symbolic overlap arithmetic is covered by C33, the rest is bookkeeping on concrete sparse matrices.",
    "C29": "split_intersecting_segments_2d chains bounding-box sweeps, uniquify, sparse graph bookkeeping on arrays whose lengths depend on the data; path count and proxy surface are out of reach (kernel segments_2d is covered by C28).",
    "C38": "Export/import goes through meshio/VTK file I/O; nothing symbolic survives the file boundary.",
    "C39": "Input space is a finite labelling of faces consumed by numpy fancy indexing; a symbolic label is concretised immediately - exhaustive testing, not solving.",
    "C44": "Clipping is implemented with shapely/GEOS and the polygon-intersection pipeline (compiled, concrete-only).",
    "C45": "Keys are Python strings/hashes of concrete objects; no arithmetic; quantifier over tree shapes is enumeration.",
    "C47": "csv/txt round trips depend on C-level float formatting/parsing and file I/O.",
}

# properties planned in DESIGN.md section 6 whose check is not built yet
PENDING_REASON = "check planned (DESIGN.md section 6) but not built yet in this round; not claimed until it runs clean"
