"""Symbolic scalars backed by z3 terms.

SReal / SInt / SBool flow through unmodified PorePy code (inside numpy object arrays or
as plain Python scalars).  Coercing an SBool to ``bool`` asks the active path context to
decide the branch (see explore.py).
"""
from __future__ import annotations

import fractions
import math
import os

import numpy as np
import z3


class PathAbort(BaseException):
    """Base of the path-steering exceptions (BaseException: user code must not catch)."""


class Infeasible(PathAbort):
    pass


class Abandon(PathAbort):
    """Path abandoned as inconclusive (budget, undecidable branch without witness)."""


_CTX = [None]  # active PathCtx


def cur():
    c = _CTX[0]
    if c is None:
        raise RuntimeError("symbolic value used outside of an exploration")
    return c


def set_cur(c):
    _CTX[0] = c


def frac_of_float(x: float) -> fractions.Fraction:
    """Floats are read as the exact rational value of the double (DESIGN 3/1a)."""
    x = float(x)
    if x != x or x in (math.inf, -math.inf):
        raise ValueError("non-finite float in symbolic session")
    return fractions.Fraction(x)


def rv(x) -> z3.ArithRef:
    if isinstance(x, fractions.Fraction):
        return z3.RealVal(f"{x.numerator}/{x.denominator}")
    if isinstance(x, (bool, np.bool_)):
        return z3.RealVal(int(x))
    if isinstance(x, (int, np.integer)):
        return z3.RealVal(int(x))
    f = frac_of_float(x)
    return z3.RealVal(f"{f.numerator}/{f.denominator}")


def is_symscalar(x) -> bool:
    return isinstance(x, (SReal, SBool))


def lift(x) -> z3.ArithRef:
    """z3 Real term of a scalar."""
    if isinstance(x, SInt):
        return z3.ToReal(x.e)
    if isinstance(x, SReal):
        return x.e
    if isinstance(x, SBool):
        return z3.If(x.e, z3.RealVal(1), z3.RealVal(0))
    if isinstance(x, (bool, np.bool_, int, np.integer, float, np.floating, fractions.Fraction)):
        return rv(x)
    if isinstance(x, np.ndarray) and x.ndim == 0:
        return lift(x.item())
    if isinstance(x, z3.ArithRef):
        return z3.ToReal(x) if x.sort() == z3.IntSort() else x
    raise TypeError(f"cannot lift {type(x)}")


def _simp(e):
    return z3.simplify(e, som=False)


def _small(e, limit):
    """True if the term DAG of e has fewer than `limit` nodes."""
    seen = set()
    stack = [e]
    while stack:
        t = stack.pop()
        i = t.get_id()
        if i in seen:
            continue
        seen.add(i)
        if len(seen) >= limit:
            return False
        stack.extend(t.children())
    return True


class SBool:
    __slots__ = ("e",)

    def __init__(self, e):
        if isinstance(e, bool):
            e = z3.BoolVal(e)
        self.e = e

    def __bool__(self):
        e = z3.simplify(self.e)
        if z3.is_true(e):
            return True
        if z3.is_false(e):
            return False
        if _small(e, 400):
            # polynomial identities (e.g. a discriminant that cancels identically) decide the test
            # without a solver call once expanded into a sum of monomials
            e2 = z3.simplify(e, som=True)
            if z3.is_true(e2):
                return True
            if z3.is_false(e2):
                return False
        return cur().branch(e)

    @staticmethod
    def _o(o):
        if isinstance(o, SBool):
            return o.e
        if isinstance(o, (bool, np.bool_)):
            return z3.BoolVal(bool(o))
        if isinstance(o, (int, np.integer)):
            return z3.BoolVal(bool(o))
        return None

    def __and__(self, o):
        oe = self._o(o)
        if oe is None:
            return NotImplemented
        return SBool(z3.And(self.e, oe))

    __rand__ = __and__

    def __or__(self, o):
        oe = self._o(o)
        if oe is None:
            return NotImplemented
        return SBool(z3.Or(self.e, oe))

    __ror__ = __or__

    def __xor__(self, o):
        oe = self._o(o)
        if oe is None:
            return NotImplemented
        return SBool(z3.Xor(self.e, oe))

    __rxor__ = __xor__

    def __invert__(self):
        return SBool(z3.Not(self.e))

    def logical_not(self):
        return SBool(z3.Not(self.e))

    def __eq__(self, o):
        oe = self._o(o)
        if oe is None:
            return NotImplemented
        return SBool(self.e == oe)

    def __ne__(self, o):
        oe = self._o(o)
        if oe is None:
            return NotImplemented
        return SBool(self.e != oe)

    __hash__ = None

    # arithmetic on booleans (True -> 1)
    def _r(self):
        return SReal(lift(self))

    # bool (x) bool follows numpy's bool_ semantics (+ is or, * is and); anything else is numeric
    def __mul__(self, o):
        if isinstance(o, (SBool, bool, np.bool_)):
            return self.__and__(o)
        return self._r() * o

    __rmul__ = __mul__

    def __add__(self, o):
        if isinstance(o, (SBool, bool, np.bool_)):
            return self.__or__(o)
        return self._r() + o

    __radd__ = __add__

    def __sub__(self, o):
        return self._r() - o

    def __rsub__(self, o):
        return o - self._r()

    def __neg__(self):
        return -self._r()

    def __truediv__(self, o):
        return self._r() / o

    def __float__(self):
        return float(bool(self))

    def astype(self, dtype, *a, **k):
        if dtype in (float, np.float64):
            return self._r()
        if dtype in (bool, np.bool_):
            return bool(self)
        return int(bool(self))

    def __repr__(self):
        return f"SBool({self.e})"


R = z3.RealSort()
UF_NAMES = [
    "exp", "log", "sin", "cos", "tan", "arcsin", "arccos", "arctan",
    "sinh", "cosh", "tanh", "arcsinh", "arccosh", "arctanh",
]
UF = {n: z3.Function(n, R, R) for n in UF_NAMES}
POW = z3.Function("pow", R, R, R)


def _const_value(e):
    e = z3.simplify(e)
    if z3.is_rational_value(e):
        return e.as_fraction()
    if z3.is_int_value(e):
        return fractions.Fraction(e.as_long())
    return None


def _exact_sqrt(fr: fractions.Fraction):
    if fr < 0:
        return None
    n, d = fr.numerator, fr.denominator
    rn, rd = math.isqrt(n), math.isqrt(d)
    if rn * rn == n and rd * rd == d:
        return fractions.Fraction(rn, rd)
    return None


SIMPLIFY_DIV = False     # set per path from Config.simplify_div (geometry harnesses)


def _div(a, b):
    """a / b; with SIMPLIFY_DIV, t / t and t / (-t) become +-1 and 0 / t becomes 0 when the path
    implies t != 0 (keeps normalised directions such as tangent / |tangent| out of nonlinear
    arithmetic)."""
    if not SIMPLIFY_DIV:
        return a / b
    if (z3.is_rational_value(a) or z3.is_int_value(a)) and a.as_fraction() == 0 \
            and not (z3.is_rational_value(b) or z3.is_int_value(b)):
        try:
            if cur().sign_strict(b) != 0:
                return z3.RealVal(0)
        except Exception:  # noqa: BLE001
            pass
    if not (z3.is_rational_value(b) or z3.is_int_value(b)) and a.sort() == b.sort():
        same = z3.eq(a, b)
        opp = False
        if not same and a.sort() == R and _small(a, 3000) and _small(b, 3000):
            sa_, sb_ = z3.simplify(a), z3.simplify(b)
            same = z3.eq(sa_, sb_)
            if not same:
                opp = z3.eq(z3.simplify(sa_ + sb_), z3.RealVal(0))
        if same or opp:
            try:
                if cur().sign_strict(b) != 0:
                    return z3.RealVal(-1 if opp else 1)
            except Exception:  # noqa: BLE001  (no active path)
                pass
    return a / b


class SReal:
    __slots__ = ("e",)

    def __init__(self, e):
        self.e = e

    # ---- helpers
    def _bin(self, o, f):
        if isinstance(o, np.ndarray) and o.ndim > 0:
            return NotImplemented
        try:
            oe = lift(o)
        except TypeError:
            return NotImplemented
        return SReal(_simp(f(lift(self), oe)))

    def __add__(self, o):
        return self._bin(o, lambda a, b: a + b)

    __radd__ = __add__

    def __sub__(self, o):
        return self._bin(o, lambda a, b: a - b)

    def __rsub__(self, o):
        return self._bin(o, lambda a, b: b - a)

    def __mul__(self, o):
        return self._bin(o, lambda a, b: a * b)

    __rmul__ = __mul__

    def __truediv__(self, o):
        return self._bin(o, _div)

    def __rtruediv__(self, o):
        return self._bin(o, lambda a, b: _div(b, a))

    def __neg__(self):
        return SReal(_simp(-lift(self)))

    def __pos__(self):
        return self

    def __floordiv__(self, o):
        """floor(self / o) as a fresh integer k with k <= self/o < k+1 (o != 0 assumed)."""
        try:
            q = lift(self) / lift(o)
        except TypeError:
            return NotImplemented
        c = _const_value(q)
        if c is not None:
            return int(math.floor(c))
        ctx = cur()
        ctx._nfresh += 1
        k = z3.Int(f"floor!{ctx._nfresh}")
        ctx._add(z3.And(z3.ToReal(k) <= q, q < z3.ToReal(k) + 1))
        return SInt(k)

    def __rfloordiv__(self, o):
        return SReal(lift(o)).__floordiv__(self)

    def floor(self):
        return self.__floordiv__(1)

    def __abs__(self):
        e = lift(self)
        c = _const_value(e)
        if c is not None:
            return SReal(rv(abs(c)))
        return SReal(z3.If(e >= 0, e, -e))

    absolute = __abs__

    def conjugate(self):
        return self

    def __pow__(self, o):
        base = lift(self)
        if isinstance(o, (SReal,)):
            c = _const_value(lift(o))
            if c is None:
                return SReal(POW(base, lift(o)))
            o = c
        if isinstance(o, np.ndarray):
            return NotImplemented
        if isinstance(o, (bool, np.bool_)):
            o = int(o)
        if isinstance(o, (int, np.integer, float, np.floating, fractions.Fraction)):
            fo = fractions.Fraction(o) if not isinstance(o, (float, np.floating)) else frac_of_float(o)
            if fo.denominator == 1:
                n = int(fo)
                if abs(n) > 64:
                    return SReal(POW(base, rv(fo)))
                if n in (2, -2) and z3.is_const(base):
                    # (sqrt(a))**2 = a: the definition of the square-root symbol, applied directly
                    try:
                        for rsym, arg in cur()._sqrt.values():
                            if rsym.eq(base):
                                return SReal(_simp(arg if n == 2 else 1 / arg))
                    except Exception:  # noqa: BLE001
                        pass
                r = z3.RealVal(1)
                for _ in range(abs(n)):
                    r = r * base
                return SReal(_simp(r if n >= 0 else 1 / r))
            if fo.denominator == 2:
                n = int(fo * 2)
                rt = sqrt_term(base)
                r = z3.RealVal(1)
                for _ in range(abs(n)):
                    r = r * rt
                return SReal(_simp(r if n >= 0 else 1 / r))
            return SReal(POW(base, rv(fo)))
        return NotImplemented

    def __rpow__(self, o):
        try:
            oe = lift(o)
        except TypeError:
            return NotImplemented
        return SReal(POW(oe, lift(self)))

    def _cmp(self, o, f):
        if isinstance(o, np.ndarray) and o.ndim > 0:
            return NotImplemented
        try:
            oe = lift(o)
        except TypeError:
            return NotImplemented
        a = lift(self)
        # sqrt is monotone: comparing two square-root symbols (or one with a non-negative constant)
        # is comparing their arguments -- keeps the query free of the auxiliary symbols
        try:
            ctx = cur()
            sq = {r.get_id(): arg for r, arg in ctx._sqrt.values()}
        except Exception:  # noqa: BLE001
            sq = {}
        if sq and a.get_id() in sq:
            if oe.get_id() in sq:
                return SBool(f(sq[a.get_id()], sq[oe.get_id()]))
            c = _const_value(oe)
            if c is not None and c >= 0:
                return SBool(f(sq[a.get_id()], rv(fractions.Fraction(c) ** 2)))
        elif sq and oe.get_id() in sq:
            c = _const_value(a)
            if c is not None and c >= 0:
                return SBool(f(rv(fractions.Fraction(c) ** 2), sq[oe.get_id()]))
        return SBool(f(a, oe))

    def __lt__(self, o):
        return self._cmp(o, lambda a, b: a < b)

    def __le__(self, o):
        return self._cmp(o, lambda a, b: a <= b)

    def __gt__(self, o):
        return self._cmp(o, lambda a, b: a > b)

    def __ge__(self, o):
        return self._cmp(o, lambda a, b: a >= b)

    def __eq__(self, o):
        return self._cmp(o, lambda a, b: a == b)

    def __ne__(self, o):
        return self._cmp(o, lambda a, b: a != b)

    __hash__ = None

    def __float__(self):
        c = _const_value(lift(self))
        if c is None:
            raise TypeError(f"float() of a symbolic value {self.e}")
        return float(c)

    def __bool__(self):
        return bool(self != 0)

    def sqrt(self):
        return SReal(sqrt_term(lift(self)))

    def square(self):
        return self * self

    def reciprocal(self):
        return 1 / self

    def sign(self):
        e = lift(self)
        return SReal(z3.If(e > 0, z3.RealVal(1), z3.If(e < 0, z3.RealVal(-1), z3.RealVal(0))))

    def rint(self):
        raise TypeError("rint of symbolic value")

    def isfinite(self):
        return SBool(True)

    def isnan(self):
        return SBool(False)

    def isinf(self):
        return SBool(False)

    ndim = 0
    shape = ()
    size = 1

    def astype(self, dtype, *a, **k):
        if dtype in (float, np.float64, object):
            return self
        if dtype in (int, np.int64):
            return int(self)
        if dtype in (bool, np.bool_):
            return bool(self)
        raise TypeError(f"astype({dtype}) of symbolic scalar")

    @property
    def real(self):
        return self

    @property
    def imag(self):
        return 0

    def item(self):
        return self

    def copy(self):
        return self

    def __deepcopy__(self, memo):
        return self

    def __copy__(self):
        return self

    def __repr__(self):
        return f"S({self.e})"


def _mk_uf(n):
    def f(self):
        e = lift(self)
        c = _const_value(e)
        if c is not None and c == 0:
            if n in ("exp", "cos", "cosh"):
                return SReal(z3.RealVal(1))
            if n in ("sin", "tan", "sinh", "tanh", "arcsin", "arctan", "arcsinh", "arctanh"):
                return SReal(z3.RealVal(0))
        if c is not None and c == 1 and n == "log":
            return SReal(z3.RealVal(0))
        # exact inverse-function identities on the domain of the inner function
        if z3.is_app(e) and e.decl().kind() == z3.Z3_OP_UNINTERPRETED and e.num_args() == 1:
            inner, t = e.decl().name(), e.arg(0)
            if (n, inner) in (("cos", "arccos"), ("sin", "arcsin"), ("tan", "arctan"), ("exp", "log"),
                              ("sinh", "arcsinh"), ("tanh", "arctanh")):
                return SReal(t)
            if (n, inner) in (("sin", "arccos"), ("cos", "arcsin")):
                return SReal(sqrt_term(1 - t * t))
        return SReal(UF[n](e))

    f.__name__ = n
    return f


for _n in UF_NAMES:
    setattr(SReal, _n, _mk_uf(_n))


class SInt(SReal):
    """Integer-sorted symbolic scalar."""

    __slots__ = ()

    def _ibin(self, o, f):
        if isinstance(o, SInt):
            return SInt(_simp(f(self.e, o.e)))
        if isinstance(o, (bool, np.bool_)):
            o = int(o)
        if isinstance(o, (int, np.integer)):
            return SInt(_simp(f(self.e, z3.IntVal(int(o)))))
        return None

    def __add__(self, o):
        r = self._ibin(o, lambda a, b: a + b)
        return r if r is not None else SReal.__add__(self, o)

    __radd__ = __add__

    def __sub__(self, o):
        r = self._ibin(o, lambda a, b: a - b)
        return r if r is not None else SReal.__sub__(self, o)

    def __rsub__(self, o):
        r = self._ibin(o, lambda a, b: b - a)
        return r if r is not None else SReal.__rsub__(self, o)

    def __mul__(self, o):
        r = self._ibin(o, lambda a, b: a * b)
        return r if r is not None else SReal.__mul__(self, o)

    __rmul__ = __mul__

    def __neg__(self):
        return SInt(_simp(-self.e))

    def _icmp(self, o, f):
        if isinstance(o, SInt):
            return SBool(f(self.e, o.e))
        if isinstance(o, (bool, np.bool_)):
            o = int(o)
        if isinstance(o, (int, np.integer)):
            return SBool(f(self.e, z3.IntVal(int(o))))
        return None

    def __lt__(self, o):
        r = self._icmp(o, lambda a, b: a < b)
        return r if r is not None else SReal.__lt__(self, o)

    def __le__(self, o):
        r = self._icmp(o, lambda a, b: a <= b)
        return r if r is not None else SReal.__le__(self, o)

    def __gt__(self, o):
        r = self._icmp(o, lambda a, b: a > b)
        return r if r is not None else SReal.__gt__(self, o)

    def __ge__(self, o):
        r = self._icmp(o, lambda a, b: a >= b)
        return r if r is not None else SReal.__ge__(self, o)

    def __eq__(self, o):
        r = self._icmp(o, lambda a, b: a == b)
        return r if r is not None else SReal.__eq__(self, o)

    def __ne__(self, o):
        r = self._icmp(o, lambda a, b: a != b)
        return r if r is not None else SReal.__ne__(self, o)

    __hash__ = None

    def __index__(self):
        return cur().concretize_int(self.e)

    __int__ = __index__

    def __repr__(self):
        return f"SI({self.e})"


def sqrt_term(arg: z3.ArithRef) -> z3.ArithRef:
    """sqrt as a fresh non-negative variable r with r*r == arg (path definition)."""
    arg = z3.simplify(arg)
    c = _const_value(arg)
    if c is not None:
        r = _exact_sqrt(c)
        if r is not None:
            return rv(r)
    t = _square_root_of(arg)
    if t is not None:
        # sqrt(t*t) = |t| exactly, no fresh variable needed; resolve the sign on the path if it is implied
        sg = cur().sign_of(t)
        if sg > 0:
            return t
        if sg < 0:
            return z3.simplify(-t)
        return z3.If(t >= 0, t, -t)
    return cur().sqrt_var(arg)


def _square_root_of(e):
    """t if e is syntactically t*t or t**2 (possibly times a constant that is a perfect square)."""
    if z3.is_app(e):
        k = e.decl().kind()
        if k == z3.Z3_OP_POWER and e.num_args() == 2:
            c = _const_value(e.arg(1))
            if c == 2:
                return e.arg(0)
        if k == z3.Z3_OP_MUL:
            args = [e.arg(i) for i in range(e.num_args())]
            coef = fractions.Fraction(1)
            rest = []
            for a in args:
                c = _const_value(a)
                if c is not None:
                    coef *= fractions.Fraction(c)
                else:
                    rest.append(a)
            rc = _exact_sqrt(coef) if coef > 0 else None
            if rc is None:
                return None
            if len(rest) == 2 and z3.eq(rest[0], rest[1]):
                return rv(rc) * rest[0]
            if len(rest) == 1:
                t = _square_root_of(rest[0])
                if t is not None:
                    return rv(rc) * t
    return None


# ------------------------------------------------------------------ model evaluation


def model_fraction(model: z3.ModelRef, e) -> fractions.Fraction:
    v = model.eval(e, model_completion=True)
    v = z3.simplify(v)
    if z3.is_rational_value(v):
        return v.as_fraction()
    if z3.is_int_value(v):
        return fractions.Fraction(v.as_long())
    if z3.is_algebraic_value(v):
        a = v.approx(30)
        return a.as_fraction()
    if z3.is_true(v):
        return fractions.Fraction(1)
    if z3.is_false(v):
        return fractions.Fraction(0)
    raise ValueError(f"cannot evaluate {e} -> {v}")


def concretize(model, x, exact=False):
    """Turn a (nested) symbolic structure into Python floats/ints/bools under model.
    exact=True keeps reals as fractions.Fraction (exact replay of rational algorithms)."""
    if exact:
        if isinstance(x, SInt):
            return int(model_fraction(model, x.e))
        if isinstance(x, SReal):
            return model_fraction(model, x.e)
        if isinstance(x, SBool):
            return bool(z3.is_true(model.eval(x.e, model_completion=True)))
        if isinstance(x, (list, tuple)):
            return type(x)(concretize(model, v, True) for v in x)
        if isinstance(x, dict):
            return {k: concretize(model, v, True) for k, v in x.items()}
        if isinstance(x, float):
            return frac_of_float(x)
        if isinstance(x, np.ndarray) and x.dtype == object:
            out = np.empty(x.shape, dtype=object)
            for idx in np.ndindex(*x.shape):
                out[idx] = concretize(model, x[idx], True)
            return out
        return x
    if isinstance(x, SInt):
        return int(model_fraction(model, x.e))
    if isinstance(x, SReal):
        return float(model_fraction(model, x.e))
    if isinstance(x, SBool):
        return bool(z3.is_true(model.eval(x.e, model_completion=True)))
    if isinstance(x, np.ndarray):
        if x.dtype == object:
            flat = [concretize(model, v) for v in np.asarray(x).ravel().tolist()]
            kinds = {type(v) for v in flat}
            if kinds <= {bool}:
                return np.array(flat, dtype=bool).reshape(x.shape)
            if kinds <= {int, bool}:
                return np.array(flat, dtype=int).reshape(x.shape)
            return np.array(flat, dtype=float).reshape(x.shape)
        return np.asarray(x)
    if isinstance(x, (list, tuple)):
        return type(x)(concretize(model, v) for v in x)
    if isinstance(x, dict):
        return {k: concretize(model, v) for k, v in x.items()}
    if isinstance(x, fractions.Fraction):
        return float(x)
    return x
