"""Run-time patching of porepy modules (proxies for np / sps) and function tracing.

Nothing in /repo is edited: module attributes are swapped in the checking process only,
and the proxies are inert unless a symbolic session is active.
"""
from __future__ import annotations

import hashlib
import inspect
import os
import sys
import warnings

os.environ.setdefault("NUMBA_DISABLE_JIT", "1")
warnings.simplefilter("ignore")

import numpy as _np  # noqa: E402
import scipy.sparse as _sps  # noqa: E402

REPO_SRC = os.path.realpath(os.environ.get("PV_REPO_SRC", "/repo/src"))

_patched = []
_hits = {}
_TOOL = 3


def patch_porepy():
    """Replace the module-global np/sps of every loaded porepy module by the proxies."""
    from .arr import npproxy
    from .sparse import install_scipy_wrappers, spsproxy

    install_scipy_wrappers()
    import porepy  # noqa: F401

    _patch_hashing()
    _patch_adarray()
    for name, mod in list(sys.modules.items()):
        if mod is None or not name.startswith("porepy"):
            continue
        d = getattr(mod, "__dict__", {})
        if d.get("np") is _np:
            mod.np = npproxy
            _patched.append((mod, "np", _np))
        if d.get("sps") is _sps:
            mod.sps = spsproxy
            _patched.append((mod, "sps", _sps))
        if name in _FLOAT_CAST_MODULES and "float" not in d:
            # float(x) casts of numpy scalars: identity on symbolic scalars (a module-global shadowing the builtin)
            mod.float = _float_shim
            _patched.append((mod, "float", None))


_FLOAT_CAST_MODULES = {"porepy.geometry.geometry_property_checks"}


def _float_shim(x=0.0):
    from .sym import SReal

    if isinstance(x, SReal):
        return x
    if isinstance(x, _np.ndarray) and x.dtype == object and x.size == 1 and isinstance(x.ravel()[0], SReal):
        return x.ravel()[0]
    return float(x)


def _patch_adarray():
    """Inside a symbolic session every AdArray Jacobian is held as a SymSparse (exact lift of
    the concrete matrix), so that in-place restructuring helpers (merge_matrices) that mix a
    concrete and a symbolic Jacobian keep working.  The AdArray code itself is unchanged."""
    import porepy.numerics.ad.forward_mode as fm

    from .explore import Session
    from .sparse import SymSparse

    orig = fm.AdArray.__init__
    if getattr(orig, "_pv_wrapped", False):
        return

    def __init__(self, val, jac):
        if Session.active and _sps.issparse(jac) and not isinstance(jac, SymSparse):
            jac = SymSparse.lift(jac)
        orig(self, val, jac)

    __init__._pv_wrapped = True
    fm.AdArray.__init__ = __init__


def _patch_hashing():
    """sha256 of array buffers (operator keys) cannot digest object arrays: stub with a hash
    of the printed content.  Hash keys are not the subject of any claimed property."""
    import hashlib

    import porepy.numerics.ad.operators as ops

    from .sparse import SymSparse

    real_sha = hashlib.sha256

    def sha256(data=b"", **k):
        if isinstance(data, _np.ndarray) and data.dtype == object:
            data = repr(data.tolist()).encode()
        return real_sha(data, **k)

    if getattr(ops, "sha256", None) is real_sha:
        ops.sha256 = sha256
    orig = ops.SparseArray._compute_spmatrix_hash

    def _hash(mat):
        if isinstance(mat, SymSparse):
            return f"SymSparse_{mat.shape}_" + real_sha(repr(mat.A_.tolist()).encode()).hexdigest()
        return orig(mat)

    ops.SparseArray._compute_spmatrix_hash = staticmethod(_hash)


def start_trace():
    mon = sys.monitoring
    try:
        mon.use_tool_id(_TOOL, "pv")
    except ValueError:
        pass

    def on_start(code, off):
        fn = code.co_filename
        if fn.startswith(REPO_SRC):
            _hits[(fn, code.co_qualname, code.co_firstlineno)] = code
        return mon.DISABLE

    mon.register_callback(_TOOL, mon.events.PY_START, on_start)
    mon.set_events(_TOOL, mon.events.PY_START)


def stop_trace():
    mon = sys.monitoring
    try:
        mon.set_events(_TOOL, 0)
        mon.free_tool_id(_TOOL)
    except Exception:  # noqa: BLE001
        pass


def traced_functions(prefixes=()):
    """{qualified name: sha256 of source} for executed porepy functions.

    prefixes: module path fragments (e.g. 'numerics/time_step_control') to report in
    full; other executed functions are only counted."""
    out = {}
    others = 0
    for (fn, qn, line), code in _hits.items():
        rel = os.path.relpath(fn, REPO_SRC)
        if qn == "<module>" or "<" in qn.split(".")[-1]:
            continue
        if prefixes and not any(p in rel for p in prefixes):
            others += 1
            continue
        try:
            src = "".join(inspect.getsourcelines(code)[0])
            h = hashlib.sha256(src.encode()).hexdigest()[:16]
        except Exception:  # noqa: BLE001
            h = "?"
        out[f"{rel}:{qn}"] = h
    return out, others
