"""Helpers shared by the AD harnesses (C01, C02, C03, C36)."""
from __future__ import annotations

import numpy as np
import scipy.sparse as sps
import z3

from .arr import SymArr, lift_array, sa
from .diff import zdiff
from .sparse import SymSparse
from .sym import SReal, lift


def mk_ad(ctx, name, n, m, pattern=None):
    """AdArray with symbolic values and an arbitrary (symbolic) n x m Jacobian."""
    import porepy as pp

    val = ctx.reals(f"{name}v", n)
    J = np.empty((n, m), dtype=object)
    M = np.ones((n, m), dtype=bool) if pattern is None else np.asarray(pattern, dtype=bool)
    for i in range(n):
        for j in range(m):
            J[i, j] = ctx.real(f"{name}j_{i}_{j}") if M[i, j] else 0
    return pp.ad.AdArray(val, SymSparse(J, "csr", M))


def dense(j):
    """Dense object array of a Jacobian (SymSparse, scipy sparse, ndarray)."""
    if isinstance(j, SymSparse):
        return np.asarray(j.A_, dtype=object)
    if sps.issparse(j):
        return lift_array(j.toarray()).view(np.ndarray)
    return np.asarray(j, dtype=object)


def val_syms(ad):
    return [lift(v) for v in np.asarray(ad.val, dtype=object).tolist()]


def expected_jac(ctx, ref_vals, deps):
    """Chain rule oracle: out_i = ref_i(dep values)  =>
    J_ij = sum_dep sum_k  d ref_i / d dep.val_k * dep.jac[k, j]."""
    ref_vals = np.asarray(ref_vals, dtype=object).ravel().tolist()
    m = deps[0].jac.shape[1]
    out = np.empty((len(ref_vals), m), dtype=object)
    djs = [dense(d.jac) for d in deps]
    for i, r in enumerate(ref_vals):
        re = lift(r)
        cache_by_var = []
        partials = []
        for d in deps:
            ps = []
            for x in val_syms(d):
                if not z3.is_const(x):
                    raise ValueError("dependency values must be plain symbols")
                ps.append(zdiff(re, x, ctx))
            partials.append(ps)
        for j in range(m):
            acc = z3.RealVal(0)
            for d, ps, dj in zip(deps, partials, djs):
                for k, pk in enumerate(ps):
                    if z3.is_rational_value(pk) and pk.as_fraction() == 0:
                        continue
                    acc = acc + pk * lift(dj[k, j])
            out[i, j] = SReal(z3.simplify(acc))
    return out


def uf_applications(terms):
    """Distinct applications of the elementary-function symbols occurring in z3 terms."""
    from .sym import UF

    seen, out = set(), []

    def rec(t):
        k = t.get_id()
        if k in seen:
            return
        seen.add(k)
        if z3.is_app(t):
            if t.decl().kind() == z3.Z3_OP_UNINTERPRETED and t.decl().name() in UF and t.num_args() == 1:
                out.append(t)
            for c in t.children():
                rec(c)

    for t in terms:
        rec(t)
    return out


def bound_exp_applications(ctx, terms, lo=-4, hi=4):
    """Ground range axioms: for every exp(t) occurring in the terms assume lo <= t <= hi and
    1/64 <= exp(t) <= 64 (true for the real exponential on that range).  Returns the count."""
    n = 0
    for app in uf_applications(terms):
        if app.decl().name() == "exp":
            arg = app.arg(0)
            ctx.assume(z3.And(arg >= lo, arg <= hi, app >= z3.RealVal(1) / 64, app <= 64))
            n += 1
    return n
