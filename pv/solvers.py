"""Secondary solver (cvc5 wheel) used when z3 answers unknown."""
from __future__ import annotations


def cvc5_check(smt2: str, timeout_ms: int) -> str:
    try:
        import cvc5
    except Exception:  # noqa: BLE001
        return "unknown"
    try:
        slv = cvc5.Solver()
        slv.setOption("tlimit-per", str(int(timeout_ms)))
        slv.setOption("nl-cov", "true")
        slv.setLogic("ALL")
        parser = cvc5.InputParser(slv)
        parser.setStringInput(cvc5.InputLanguage.SMT_LIB_2_6, smt2, "q")
        sm = parser.getSymbolManager()
        res = None
        while True:
            cmd = parser.nextCommand()
            if cmd.isNull():
                break
            name = cmd.getCommandName()
            if name == "check-sat":
                res = slv.checkSat()
                break
            if name in ("set-logic", "set-info", "set-option", "exit", "get-model"):
                continue
            cmd.invoke(slv, sm)
        if res is None:
            return "unknown"
        if res.isUnsat():
            return "unsat"
        if res.isSat():
            return "sat"
        return "unknown"
    except Exception:  # noqa: BLE001
        return "unknown"
