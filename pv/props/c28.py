"""C28 — segment intersection agrees with exact arithmetic (symbolic INTEGER coordinates)."""
from __future__ import annotations

import fractions

import numpy as np
import z3

from ..arr import SymArr
from ..sym import lift

PID = "C28"
TARGET_PREFIXES = ("geometry/intersections",)

META = {
    "explanation": "intersections.segments_2d and segments_3d executed on segments whose direction vectors are concrete "
                   "(explicit case split over all integer directions of the box) and whose positions are symbolic "
                   "integers; the code's own tolerance tests fork the paths; on every path the result (None / point / "
                   "segment and its coordinates) is compared with the exact classification written directly in terms "
                   "of cross and dot products of the integer data; calls with the arguments in the other order are the "
                   "cases (d2, d1), and the exact classification is shown to be independent of the order",
    "assumptions": ["floats as exact reals", "integer coordinates in [-B, B]: B = 2 (2-d) / 1 (3-d) in the quick tier, "
                    "4 / 2 in the thorough tier (3-d thorough: every fifth pair of directions)", "both segments have positive length"],
    "stubs": ["np.sqrt of a concrete integer (segment lengths in segments_2d): fresh r >= 0 with r*r equal to it"],
    "outside": ["non-integer coordinates / near-degenerate configurations inside the tolerance band",
                "coordinates outside the box",
                "a fully symbolic treatment of the directions (mixed integer/real nonlinear arithmetic: neither z3 nor "
                "cvc5 answered a single path query within 15 minutes)"],
}


def _dirs(dim, B):
    import itertools

    return [d for d in itertools.product(range(-2 * B, 2 * B + 1), repeat=dim) if any(d)]


def shards(tier, seed):
    """One case = a pair of concrete direction vectors (explicit case split); the positions of the
    two segments are symbolic integers."""
    cfgs = [(2, 2), (3, 1)] if tier == "quick" else [(2, 4), (3, 2)]
    out = []
    k = 8 if tier == "quick" else 16
    for dim, B in cfgs:
        n = len(_dirs(dim, B)) ** 2
        for i in range(k):
            out.append({"dim": dim, "B": B, "chunk": i, "of": k, "ncases": len(range(i, n, k))})
    return out


def configure(cfg, tier):
    cfg.incremental_first = True
    cfg.max_paths = 200


def _cross(a, b):
    return [a[1] * b[2] - a[2] * b[1], a[2] * b[0] - a[0] * b[2], a[0] * b[1] - a[1] * b[0]]


def _dot(a, b):
    return a[0] * b[0] + a[1] * b[1] + a[2] * b[2]


def oracle(s1, e1, s2, e2):
    """Exact classification; arguments: lists of 3 z3 Int terms.  Returns (none, point, seg, A, B)
    where A (and B for a segment) are lists of Real terms."""
    d1 = [b - a for a, b in zip(s1, e1)]
    d2 = [b - a for a, b in zip(s2, e2)]
    ds = [b - a for a, b in zip(s1, s2)]
    c = _cross(d1, d2)
    par = z3.And([x == 0 for x in c])
    cc = _dot(c, c)
    a = _dot(_cross(ds, d2), c)
    b = _dot(_cross(ds, d1), c)
    coplanar = _dot(ds, c) == 0
    np_point = z3.And(coplanar, a >= 0, a <= cc, b >= 0, b <= cc)
    col = z3.And([x == 0 for x in _cross(ds, d1)])
    dd = _dot(d1, d1)
    sN = _dot(ds, d1)
    eN = _dot([x + y for x, y in zip(ds, d2)], d1)
    mn = z3.If(sN <= eN, sN, eN)
    mx = z3.If(sN <= eN, eN, sN)
    lo = z3.If(mn >= 0, mn, 0)
    hi = z3.If(mx <= dd, mx, dd)
    p_none = z3.Or(z3.Not(col), lo > hi)
    p_point = z3.And(col, lo == hi)
    p_seg = z3.And(col, lo < hi)
    none = z3.If(par, p_none, z3.Not(np_point))
    point = z3.If(par, p_point, np_point)
    seg = z3.And(par, p_seg)
    R = z3.ToReal
    A = [z3.If(par, R(s1[k]) + R(lo) * R(d1[k]) / R(dd), R(s1[k]) + R(a) * R(d1[k]) / R(cc)) for k in range(3)]
    Bp = [R(s1[k]) + R(hi) * R(d1[k]) / R(dd) for k in range(3)]
    return none, point, seg, A, Bp


def harness(ctx, shard, d1, d2, order):
    import porepy as pp

    dim, B = shard["dim"], shard["B"]
    s1 = [ctx.int(f"s1_{d}", -B, B) for d in range(dim)]
    s2 = [ctx.int(f"s2_{d}", -B, B) for d in range(dim)]
    e1 = [x + int(d) for x, d in zip(s1, d1)]
    e2 = [x + int(d) for x, d in zip(s2, d2)]
    for p in (e1, e2):
        for x in p:
            ctx.assume(z3.And(x.e >= -B, x.e <= B))
    P = [s1, e1, s2, e2]
    shard = {**shard, "d1": list(d1), "d2": list(d2), "order": order}
    inputs = {"shard": shard, "P": P}

    def case(conc):
        c = conc(inputs)
        return {"shard": shard, "P": [[int(v) for v in p] for p in c["P"]]}

    def arr(p):
        a = np.empty(dim, dtype=object)
        for k, v in enumerate(p):
            a[k] = v
        return a.view(SymArr)

    f = pp.intersections.segments_2d if dim == 2 else pp.intersections.segments_3d
    if shard["order"] == "12":
        res = f(arr(s1), arr(e1), arr(s2), arr(e2))
    else:
        res = f(arr(s2), arr(e2), arr(s1), arr(e1))
    z = z3.IntVal(0)
    pad = lambda p: [x.e for x in p] + [z] * (3 - dim)  # noqa: E731
    none, point, seg, A, Bp = oracle(pad(s1), pad(e1), pad(s2), pad(e2))
    # the exact classification with the roles of the segments exchanged (what the call with the
    # arguments in the other order is compared with in the case (d2, d1)): same kind, same point set
    none2, point2, seg2, A2, B2 = oracle(pad(s2), pad(e2), pad(s1), pad(e1))
    eqp = lambda X, Y: z3.And([x == y for x, y in zip(X, Y)])  # noqa: E731
    ctx.check("exact-classification-independent-of-argument-order",
              z3.And(none == none2, point == point2, seg == seg2,
                     z3.Implies(point, eqp(A, A2)),
                     z3.Implies(seg, z3.Or(z3.And(eqp(A, A2), eqp(Bp, B2)), z3.And(eqp(A, B2), eqp(Bp, A2))))), case)
    if res is None:
        ctx.check("none-only-when-exact-arithmetic-finds-none", none, case)
    else:
        r = np.asarray(res, dtype=object)
        ctx.check("result-shape", r.ndim == 2 and r.shape[0] == dim and r.shape[1] in (1, 2), case)
        if r.ndim == 2 and r.shape[0] == dim and r.shape[1] == 1:
            ctx.check("point-when-exact-arithmetic-finds-a-point", point, case)
            ctx.check("point-coordinates-exact", z3.And([lift(r[k, 0]) == A[k] for k in range(dim)]), case)
        elif r.ndim == 2 and r.shape[0] == dim and r.shape[1] == 2:
            ctx.check("segment-when-exact-arithmetic-finds-a-segment", seg, case)
            same = z3.And([lift(r[k, 0]) == A[k] for k in range(dim)] + [lift(r[k, 1]) == Bp[k] for k in range(dim)])
            flip = z3.And([lift(r[k, 1]) == A[k] for k in range(dim)] + [lift(r[k, 0]) == Bp[k] for k in range(dim)])
            ctx.check("segment-end-points-exact", z3.Or(same, flip), case)
            if dim == 2 and shard["order"] == "12":
                ctx.check("segment-first-point-closest-to-start_1", same, case)
    m = ctx.reach("end")
    if m is not None and ctx.rep.paths % 3 == 0:
        ctx.validate_replay("float-run", case, model=m)
    if ctx.rep.paths % 10 == 0:
        ctx.sample({"shard": shard, "path": ctx.idx, "result": "none" if res is None else list(np.shape(res))})


def run_shard(ex, shard):
    dirs = _dirs(shard["dim"], shard["B"])
    n = len(dirs)
    stride = 1
    if n * n > 120000:
        # thorough 3-d box: every first direction with a fixed-stride sample of second directions
        # (stride coprime to n, so every direction also occurs as second direction)
        stride = 5
    for idx in range(shard["chunk"] * stride, n * n, shard["of"] * stride):
        d1, d2 = dirs[idx // n], dirs[idx % n]
        B = shard["B"]
        if any(abs(x) > 2 * B for x in d1 + d2):
            continue
        ex.run(harness, label=f"{shard['dim']}d:{d1}x{d2}", args=(shard, d1, d2, "12"))


# ---------------------------------------------------------------- real-code side


def concrete_run(case):
    raise NotImplementedError


def _exact(P, dim):
    """Exact rational classification (independent of z3)."""
    F = fractions.Fraction
    pad = lambda p: [F(int(x)) for x in p] + [F(0)] * (3 - dim)  # noqa: E731
    s1, e1, s2, e2 = [pad(p) for p in P]
    d1 = [b - a for a, b in zip(s1, e1)]
    d2 = [b - a for a, b in zip(s2, e2)]
    ds = [b - a for a, b in zip(s1, s2)]
    c = _cross(d1, d2)
    if any(x != 0 for x in c):
        if _dot(ds, c) != 0:
            return "none", []
        cc = _dot(c, c)
        t1, t2 = _dot(_cross(ds, d2), c) / cc, _dot(_cross(ds, d1), c) / cc
        if 0 <= t1 <= 1 and 0 <= t2 <= 1:
            return "point", [[s1[k] + t1 * d1[k] for k in range(dim)]]
        return "none", []
    if any(x != 0 for x in _cross(ds, d1)):
        return "none", []
    dd = _dot(d1, d1)
    ts, te = _dot(ds, d1) / dd, _dot([x + y for x, y in zip(ds, d2)], d1) / dd
    lo, hi = max(min(ts, te), 0), min(max(ts, te), 1)
    if lo > hi:
        return "none", []
    if lo == hi:
        return "point", [[s1[k] + lo * d1[k] for k in range(dim)]]
    return "segment", [[s1[k] + lo * d1[k] for k in range(dim)], [s1[k] + hi * d1[k] for k in range(dim)]]


def replay_case(case):
    import porepy as pp

    shard = case["shard"]
    dim = shard["dim"]
    P = [np.array(p, dtype=float) for p in case["P"]]
    f = pp.intersections.segments_2d if dim == 2 else pp.intersections.segments_3d
    args = P if shard["order"] == "12" else [P[2], P[3], P[0], P[1]]
    res = f(*args)
    kind, pts = _exact(case["P"], dim)
    got = "none" if res is None else {1: "point", 2: "segment"}.get(np.asarray(res).shape[1], "?")
    desc = f"segments {case['P'][0]}-{case['P'][1]} and {case['P'][2]}-{case['P'][3]} (order {shard['order']})"
    if got != kind:
        return True, f"{desc}: code reports {got} {None if res is None else np.asarray(res).T.tolist()}, exact arithmetic: {kind} {[[float(x) for x in p] for p in pts]}"
    if kind != "none":
        r = np.asarray(res, dtype=float).T
        e = np.array([[float(x) for x in p] for p in pts])
        ok = np.allclose(r, e, atol=1e-9) or (kind == "segment" and np.allclose(r[::-1], e, atol=1e-9)
                                                and not (dim == 2 and shard["order"] == "12"))
        if not ok:
            return True, f"{desc}: code returns {r.tolist()}, exact arithmetic: {e.tolist()}"
    return False, "agrees"
