"""C37 — block-diagonal inversion returns the true inverse (index bookkeeping for all values)."""
from __future__ import annotations

import itertools
import random

import numpy as np
import scipy.sparse as sps
import z3

from ..adutil import dense
from ..arr import SymArr
from ..sparse import SymSparse
from ..sym import lift

PID = "C37"
TARGET_PREFIXES = ("numerics/linalg/matrix_operations",)

META = {
    "explanation": "invert_diagonal_blocks (numba source as Python, and the python path), block_diag_matrix/"
                   "block_diag_index, generate_permutation_to_block_diag_matrix and "
                   "invert_permuted_block_diag_matrix on symbolic block entries",
    "assumptions": ["floats as exact reals", "blocks non-singular and bounded away from singular (|det| >= 1/8, entries in [-4,4]); block inverse = exact cofactor inverse "
                    "(the documented contract of np.linalg.inv)", "block sizes in {1,2,3}, at most 3 blocks"],
    "stubs": ["np.linalg.inv on a symbolic block: adj(A)/det(A) under det(A) != 0"],
    "outside": ["numerical quality / conditioning", "blocks larger than 3x3 (sizes 4-6 of the property)"],
}


def _size_vectors(tier):
    vecs = []
    for nb in (1, 2, 3):
        for v in itertools.product((1, 2, 3), repeat=nb):
            if sum(v) <= (5 if tier == "quick" else 7):
                vecs.append(list(v))
    return vecs


def shards(tier, seed):
    out = []
    for v in _size_vectors(tier):
        for fmt in ("csr", "csc"):
            for method in ("numba", "python"):
                out.append({"kind": "blockdiag", "sizes": v, "fmt": fmt, "method": method})
    rnd = random.Random(37 + seed)
    perm_cases = _size_vectors(tier)
    for v in perm_cases:
        n = sum(v)
        if n < 2:
            continue
        for k in range(2 if tier == "quick" else 6):
            rp, cp = list(range(n)), list(range(n))
            rnd.shuffle(rp)
            rnd.shuffle(cp)
            out.append({"kind": "permuted", "sizes": v, "rperm": rp, "cperm": cp})
    # storage-type adjunct (concrete; object arrays have no integer storage): integer-typed matrices
    out.append({"kind": "dtype"})
    k = 8 if tier == "quick" else 16
    return [{"cases": out[i::k]} for i in range(k)]


def configure(cfg, tier):
    cfg.incremental_first = False
    cfg.query_timeout_ms = 20000 if tier == "quick" else 60000


def _block_matrix(ctx, sizes):
    n = sum(sizes)
    D = np.empty((n, n), dtype=object)
    D.fill(0)
    M = np.zeros((n, n), dtype=bool)
    o = 0
    for b, s in enumerate(sizes):
        for i in range(s):
            for j in range(s):
                D[o + i, o + j] = ctx.real(f"a{b}_{i}_{j}", -4, 4)
                M[o + i, o + j] = True
        o += s
    return D, M


def _check_inverse(ctx, tag, A, iA, case):
    A, iA = np.asarray(A, dtype=object), np.asarray(iA, dtype=object)
    n = A.shape[0]
    ctx.check(f"shape[{tag}]", iA.shape == (n, n), case)
    if iA.shape != (n, n):
        return
    for i in range(n):
        for j in range(n):
            prod = z3.Sum([lift(A[i, k]) * lift(iA[k, j]) for k in range(n)])
            ctx.check(f"A-times-inverse[{tag}]", prod == (1 if i == j else 0), case)
            prod2 = z3.Sum([lift(iA[i, k]) * lift(A[k, j]) for k in range(n)])
            ctx.check(f"inverse-times-A[{tag}]", prod2 == (1 if i == j else 0), case)


def harness(ctx, c):
    import porepy as pp

    mo = pp.matrix_operations
    sizes = c["sizes"]
    D, M = _block_matrix(ctx, sizes)
    # non-singular blocks (bounded away from singular so that the float replay is well conditioned)
    from ..arr import sdet

    o = 0
    for sz in sizes:
        d = lift(sdet(D[o:o + sz, o:o + sz]))
        ctx.assume(z3.Or(d >= z3.RealVal(1) / 8, d <= -z3.RealVal(1) / 8))
        o += sz
    inputs = {"case": c, "A": D.copy()}

    def case(conc):
        cc = conc(inputs)
        return {"case": c, "A": np.asarray(cc["A"]).tolist()}

    if c["kind"] == "blockdiag":
        A = SymSparse(D.copy(), c["fmt"], M.copy())
        iA = mo.invert_diagonal_blocks(A, np.array(sizes), method=c["method"])
        iAd = dense(iA)
        # structure: the inverse has the same block pattern
        pat = np.zeros_like(M)
        if isinstance(iA, SymSparse):
            pat = iA.M_
        ctx.check("inverse-pattern-within-blocks", bool(np.all(~pat | M)), case)
        _check_inverse(ctx, f"{c['fmt']}/{c['method']}", D, iAd, case)
    else:
        rp, cp = np.array(c["rperm"]), np.array(c["cperm"])
        Dp, Mp = D[rp][:, cp], M[rp][:, cp]
        A = SymSparse(Dp.copy(), "csr", Mp.copy())
        row_perm, col_perm, bs = mo.generate_permutation_to_block_diag_matrix(A)
        row_perm, col_perm, bs = np.asarray(row_perm), np.asarray(col_perm), np.asarray(bs)
        ctx.check("permutation-valid", sorted(row_perm.tolist()) == list(range(len(rp)))
                  and sorted(col_perm.tolist()) == list(range(len(cp))) and int(bs.sum()) == len(rp), case)
        Mb = Mp[row_perm][:, col_perm]
        blockmask = np.zeros_like(Mb)
        o = 0
        for s in bs.tolist():
            blockmask[o:o + s, o:o + s] = True
            o += s
        ctx.check("permutation-exposes-square-blocks", bool(np.all(~Mb | blockmask)), case)
        ctx.check("block-sizes-as-constructed", sorted(bs.tolist()) == sorted(sizes), case)
        iA = mo.invert_permuted_block_diag_matrix(A, row_perm, col_perm, bs)
        _check_inverse(ctx, "permuted", Dp, dense(iA), case)
    m = ctx.reach("end")
    if m is not None and ctx.rep.paths % 3 == 0:
        ctx.validate_replay("float-run", case, model=m)
    if ctx.rep.paths % 17 == 0:
        ctx.sample({"case": c})


def _dtype_problems():
    import porepy as pp

    mo = pp.matrix_operations
    blocks = [np.array([[1, 3], [4, 2]]), np.array([[2]]), np.array([[2, 0, 1], [1, 3, 0], [0, 1, 4]])]
    n = sum(b.shape[0] for b in blocks)
    A = np.zeros((n, n), dtype=np.int64)
    o = 0
    for b in blocks:
        A[o:o + b.shape[0], o:o + b.shape[0]] = b
        o += b.shape[0]
    sizes = np.array([b.shape[0] for b in blocks])
    problems = []
    for typ in (np.int64, np.int32, np.float32):
        for fmt in ("csr", "csc"):
            M = (sps.csr_matrix if fmt == "csr" else sps.csc_matrix)(A.astype(typ))
            try:
                iA = mo.invert_diagonal_blocks(M, sizes, method="python").toarray()
            except Exception as e:  # noqa: BLE001
                problems.append(f"{typ.__name__}/{fmt}: raised {type(e).__name__}: {e}")
                continue
            err = np.abs(A.astype(float) @ iA - np.eye(n)).max()
            if err > (1e-5 if typ is np.float32 else 1e-10):
                problems.append(f"{typ.__name__}/{fmt}/python: |A iA - I| = {err}")
    return problems


def h_dtype(ctx, c):
    case = lambda conc: {"case": c}  # noqa: E731
    ctx.check("integer-typed-matrices-are-inverted-like-floats", not _dtype_problems(), case)
    ctx.reach("end")
    ctx.sample({"case": c})


def run_shard(ex, shard):
    for c in shard["cases"]:
        ex.run(h_dtype if c["kind"] == "dtype" else harness, label=str(c), args=(c,))


# ---------------------------------------------------------------- real-code side


def concrete_run(case):
    raise NotImplementedError


def replay_case(case):
    import porepy as pp

    mo = pp.matrix_operations
    c = case["case"]
    if c["kind"] == "dtype":
        probs = _dtype_problems()
        return (True, f"invert_diagonal_blocks on integer-typed input: {probs}") if probs else (False, "ok")
    A = np.array(case["A"], dtype=float)
    sizes = np.array(c["sizes"])
    o = 0
    for s in sizes:
        blk = A[o:o + s, o:o + s]
        if abs(np.linalg.det(blk)) < 1e-6 or np.linalg.cond(blk) > 1e6:
            return False, "ill-conditioned block at this point"
        o += s
    if c["kind"] == "blockdiag":
        mat = sps.csr_matrix(A) if c["fmt"] == "csr" else sps.csc_matrix(A)
        iA = mo.invert_diagonal_blocks(mat, sizes, method=c["method"]).toarray()
        ref = A
    else:
        rp, cp = np.array(c["rperm"]), np.array(c["cperm"])
        ref = A[rp][:, cp]
        mat = sps.csr_matrix(ref)
        row_perm, col_perm, bs = mo.generate_permutation_to_block_diag_matrix(mat)
        iA = mo.invert_permuted_block_diag_matrix(mat, row_perm, col_perm, bs).toarray()
    n = ref.shape[0]
    if iA.shape != (n, n) or not np.allclose(ref @ iA, np.eye(n), atol=1e-6) \
            or not np.allclose(iA @ ref, np.eye(n), atol=1e-6):
        return True, f"{c}: result is not the inverse (max |A iA - I| = {np.abs(ref @ iA - np.eye(n)).max() if iA.shape == (n, n) else 'shape'})"
    return False, "inverse"
