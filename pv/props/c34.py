"""C34 — point-set uniquification (uniquify_point_set and its cluster kernel, numba source run
as Python) on symbolic coordinates with a concrete tolerance."""
from __future__ import annotations

import itertools

import numpy as np
import z3

from ..arr import SymArr, sa
from ..explore import KF
from ..sym import SReal, lift, rv, sqrt_term

PID = "C34"
TARGET_PREFIXES = ("utils/array_operations",)

TOL = 0.125

META = {
    "explanation": "uniquify_point_set/_unique_points_in_cluster executed on symbolic point coordinates; the "
                   "norm sort, norm clustering and within-tolerance tests fork the paths",
    "assumptions": [
        "floats as exact reals; sqrt(t) = r with r >= 0, r*r = t",
        f"tolerance concrete ({TOL}; the algorithm is homogeneous in (points, tol))",
        "clustering precondition of the property: every pair of points is closer than tol/10 or farther than 10*tol",
        "coordinates in [-4, 4]",
    ],
    "stubs": ["np.argsort / np.any / np.argmax on symbolic data: comparison-driven (forks)"],
    "outside": ["intersect_sets (KD-tree kernel); ismember_columns is covered by plain enumeration of 2x2 integer column sets (stated as such)",
                "more points / dimensions than the stated bound"],
}


def shards(tier, seed):
    if tier == "quick":
        cfgs = [(2, 1), (3, 1), (2, 2)]
    else:
        cfgs = [(2, 1), (3, 1), (2, 2), (4, 1)]
    out = [{"N": n, "D": d} for n, d in cfgs]
    # membership of integer columns: the inputs are integer arrays consumed by np.unique (no symbolic
    # content is possible), so this clause is checked by plain ENUMERATION against a brute-force comparison
    out.append({"kind": "ismember", "values": [-1, 0, 2] if tier == "quick" else [-2, -1, 0, 3]})
    return out


def configure(cfg, tier):
    cfg.incremental_first = True
    cfg.branch_timeout_ms = 3000
    cfg.query_timeout_ms = 20000 if tier == "quick" else 60000
    cfg.max_paths = 4000 if tier == "quick" else 40000


def _d2(P, a, b):
    return z3.Sum([(lift(P[k, a]) - lift(P[k, b])) * (lift(P[k, a]) - lift(P[k, b])) for k in range(P.shape[0])])


def harness(ctx, N, D):
    import porepy as pp

    P = ctx.reals("p", (D, N), -4, 4)
    close = {}
    for a, b in itertools.combinations(range(N), 2):
        d2 = _d2(P, a, b)
        ctx.assume(z3.Or(d2 < rv(TOL / 10) ** 2, d2 > rv(10 * TOL) ** 2))
        close[(a, b)] = d2 < rv(TOL / 10) ** 2
    inputs = {"points": P.copy(), "tol": TOL}

    def case(conc):
        c = conc(inputs)
        c["points"] = np.asarray(c["points"]).tolist()
        return c

    uniq, new_2_old, old_2_new = pp.array_operations.uniquify_point_set(P, TOL)
    new_2_old = [int(v) for v in np.asarray(new_2_old).tolist()]
    old_2_new = [int(v) for v in np.asarray(old_2_new).tolist()]
    nu = len(new_2_old)
    ctx.check("shapes", np.shape(uniq) == (D, nu) and len(old_2_new) == N, case)
    ctx.check("map-in-range", all(0 <= v < nu for v in old_2_new), case)
    # known finding C34-norm-cluster-straddle (see known_findings.json): predicate on the inputs
    norms = [sqrt_term(z3.Sum([lift(P[k, a]) * lift(P[k, a]) for k in range(D)])) for a in range(N)]
    straddle = []
    for (a, b), c in close.items():
        for t in range(N):
            if t in (a, b):
                continue
            ina = norms[a] - norms[t] <= rv(TOL)
            inb = norms[b] - norms[t] <= rv(TOL)
            straddle.append(z3.And(c, norms[t] <= norms[a], norms[t] <= norms[b], z3.Xor(ina, inb)))
    kf = [KF("C34-norm-cluster-straddle", z3.Or(straddle) if straddle else z3.BoolVal(False))]
    for (a, b), c in close.items():
        same = old_2_new[a] == old_2_new[b]
        # same class  <=>  the points are close
        if same:
            ctx.check("clusters-merged-only-if-close", c, case)
        else:
            ctx.check("clusters-close-points-merged", z3.Not(c), case, known=kf)
    # representative = first member of its class, classes ordered by first occurrence
    firsts = {}
    for i, k in enumerate(old_2_new):
        firsts.setdefault(k, i)
    ctx.check("representative-is-first-member",
              all(0 <= k < nu and new_2_old[k] == firsts.get(k) for k in range(nu)), case)
    ctx.check("order-of-first-occurrence", all(new_2_old[k] < new_2_old[k + 1] for k in range(nu - 1)), case)
    if np.shape(uniq) == (D, nu):
        for k in range(nu):
            if 0 <= new_2_old[k] < N:
                for d in range(D):
                    ctx.check("unique-point-values", lift(uniq[d, k]) == lift(P[d, new_2_old[k]]), case)
    m = ctx.reach("end")
    if m is not None and not ctx.kf_hit:
        ctx.validate_replay("float-run", case, model=m)
    if ctx.idx < 3:
        ctx.sample({"N": N, "D": D, "path": ctx.idx, "old_2_new": old_2_new, "new_2_old": new_2_old})


def _ismember_problems(values, limit=4):
    import itertools

    import porepy as pp

    problems = []
    cols = [np.array(c).reshape(2, 2) for c in itertools.product(values, repeat=4)]
    n = 0
    for a in cols:
        for b in cols:
            for sort in (True, False):
                n += 1
                try:
                    mask, ind = pp.array_operations.ismember_columns(a, b, sort=sort)
                except Exception as e:  # noqa: BLE001
                    problems.append(f"a={a.tolist()} b={b.tolist()} sort={sort}: raised {type(e).__name__}")
                    continue
                ka = [tuple(sorted(c)) if sort else tuple(c) for c in a.T.tolist()]
                kb = [tuple(sorted(c)) if sort else tuple(c) for c in b.T.tolist()]
                want = [k in kb for k in ka]
                ind = np.atleast_1d(np.asarray(ind, dtype=int))
                ok = list(map(bool, np.atleast_1d(mask))) == want and len(ind) == sum(want) and all(
                    kb[j] == k for j, k in zip(ind.tolist(), [k for k, w in zip(ka, want) if w]))
                if not ok:
                    problems.append(f"ismember_columns(a={a.tolist()}, b={b.tolist()}, sort={sort}) = "
                                    f"({np.atleast_1d(mask).tolist()}, {ind.tolist()}), brute force mask {want}")
                if len(problems) >= limit:
                    return problems, n
    return problems, n


def h_ismember(ctx, shard):
    case = lambda conc: {"kind": "ismember", "values": shard["values"]}  # noqa: E731
    probs, n = _ismember_problems(shard["values"])
    ctx.check("ismember_columns-agrees-with-brute-force (enumerated integer columns incl. negative entries)", not probs, case)
    ctx.reach("end")
    ctx.sample({"kind": "ismember", "pairs_enumerated": n})


def run_shard(ex, shard):
    if shard.get("kind") == "ismember":
        ex.run(h_ismember, label="ismember", args=(shard,))
        return
    ex.run(harness, label=f"N{shard['N']}D{shard['D']}", args=(shard["N"], shard["D"]))


# ---------------------------------------------------------------- real-code side


def concrete_run(case):
    raise NotImplementedError


def replay_case(case):
    import porepy as pp

    if case.get("kind") == "ismember":
        probs, _ = _ismember_problems(case["values"], limit=2)
        return (True, "; ".join(probs)) if probs else (False, "agrees")

    P = np.array(case["points"], dtype=float)
    tol = float(case["tol"])
    D, N = P.shape
    # the precondition must hold robustly for the float points as well
    for a, b in itertools.combinations(range(N), 2):
        d = np.linalg.norm(P[:, a] - P[:, b])
        if not (d < tol / 10 * (1 - 1e-9) or d > 10 * tol * (1 + 1e-9)):
            return False, "precondition borderline in floats"
    uniq, n2o, o2n = pp.array_operations.uniquify_point_set(P, tol)
    nu = len(n2o)
    if uniq.shape != (D, nu) or len(o2n) != N or np.any(o2n < 0) or np.any(o2n >= nu):
        return True, f"inconsistent shapes/maps: {uniq.shape}, {n2o}, {o2n}"
    for a, b in itertools.combinations(range(N), 2):
        closeab = np.linalg.norm(P[:, a] - P[:, b]) < tol / 10
        if (o2n[a] == o2n[b]) != closeab:
            return True, (f"points {a},{b} (distance {np.linalg.norm(P[:, a] - P[:, b])}) "
                          f"{'merged' if o2n[a] == o2n[b] else 'kept apart'}; points {P.tolist()}, "
                          f"old_2_new {o2n.tolist()}")
    firsts = {}
    for i, k in enumerate(o2n.tolist()):
        firsts.setdefault(k, i)
    if any(int(n2o[k]) != firsts[k] for k in range(nu)):
        return True, f"representatives {n2o.tolist()} are not the first members {firsts}"
    if any(n2o[k] >= n2o[k + 1] for k in range(nu - 1)):
        return True, f"unique points not in order of first occurrence: {n2o.tolist()}"
    if not np.array_equal(uniq, P[:, n2o]):
        return True, "unique point values differ from their representatives"
    return False, "ok"
