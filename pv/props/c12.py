"""C12 — TPFA is symmetric, conservative, and exact on K-orthogonal grids (MPFA agreement outside)."""
from __future__ import annotations

import fractions
import itertools

import numpy as np
import z3

from ..adutil import dense
from ..arr import SymArr, lift_array
from ..sym import SReal, lift, rv

PID = "C12"
TARGET_PREFIXES = ("numerics/fv/tpfa",)

META = {
    "explanation": "Tpfa.discretize on symbolic cell-wise permeability, symbolic tensor-grid spacings (dx, dy) and "
                   "a symbolic linear pressure field, for enumerated boundary-type assignments",
    "assumptions": [
        "floats as exact reals", "topology concrete: 1-d 3 cells, 2x2 Cartesian (symbolic dx, dy), 2 triangles "
        "(concrete geometry)", "permeability SPD per cell (leading minors > 0); diagonal for the K-orthogonal "
        "clauses, constant for linear exactness", "geometry of the tensor grid assigned analytically by the harness "
        "(compute_geometry is the subject of C19)",
    ],
    "stubs": ["sparse constructors on symbolic data -> SymSparse"],
    "outside": ["agreement with MPFA (MPFA local systems are not encodable, see C11)", "3-d grids",
                "Aavatsmark transmissibilities", "periodic maps other than bottom/top of the 2x2 grid"],
}


def _bc_assignments(nb, tier):
    pats = [[1] * nb, [0] * nb, [i % 2 for i in range(nb)], [1 if i < nb // 2 else 0 for i in range(nb)]]
    if tier == "thorough":
        import random

        rnd = random.Random(12)
        for _ in range(12):
            pats.append([rnd.randint(0, 1) for _ in range(nb)])
    uniq = []
    for p in pats:
        if p not in uniq:
            uniq.append(p)
    return uniq


def shards(tier, seed):
    out = []
    for topo, nb in (("line3", 2), ("cart2x2", 8), ("tri2", 4)):
        for bc in _bc_assignments(nb, tier):
            for ktype in ("full", "diag", "const"):
                if topo == "tri2" and ktype != "full":
                    continue
                if topo == "line3" and ktype == "full":
                    continue
                out.append({"topo": topo, "bc": bc, "k": ktype})
    # periodic bottom/top boundary (deprecated but supported branch), heterogeneous diagonal K
    for bc in ([0, 0, 0, 0], [1, 1, 1, 1], [1, 0, 1, 0]):
        out.append({"topo": "cart2x2", "bc": bc, "k": "diag", "periodic": True})
    # lower-dimensional grids embedded off-axis in 3-d (no "ambient_dimension" parameter), isotropic K:
    # still K-orthogonal, so the exactness clause applies
    for topo, nb, tilts in (("cart2x2", 8, ("x345", "y345")), ("line3", 2, ("z345", "y345"))):
        for bc in ([1] * nb, [1, 0] * (nb // 2)):
            for tilt in tilts:
                out.append({"topo": topo, "bc": bc, "k": "iso", "tilt": tilt})
    return out


def configure(cfg, tier):
    cfg.incremental_first = False
    cfg.query_timeout_ms = 20000 if tier == "quick" else 60000


def _grid(topo):
    import porepy as pp

    if topo == "line3":
        g = pp.CartGrid([3], [3.0])
    elif topo == "cart2x2":
        g = pp.CartGrid([2, 2], [2.0, 2.0])
    else:
        g = pp.StructuredTriangleGrid([1, 1], [1.0, 1.0])
    g.compute_geometry()
    return g


def _scale_geometry(g, sx, sy):
    """Geometry of the tensor grid with spacings (sx, sy) (unit-spacing grid scaled)."""
    S = np.array([sx, sy, 1], dtype=object)
    obj = lambda a: lift_array(a).view(np.ndarray)  # noqa: E731
    g.nodes = (obj(g.nodes) * S[:, None]).view(SymArr)
    g.face_centers = (obj(g.face_centers) * S[:, None]).view(SymArr)
    g.cell_centers = (obj(g.cell_centers) * S[:, None]).view(SymArr)
    if g.dim == 2:
        N = np.array([sy, sx, 1], dtype=object)          # x-normal faces have length sy
        g.face_normals = (obj(g.face_normals) * N[:, None]).view(SymArr)
        fa = np.empty(g.num_faces, dtype=object)
        for f in range(g.num_faces):
            fa[f] = sy if abs(g_face_nx(g, f)) > 0.5 else sx
        g.face_areas = fa.view(SymArr)
        g.cell_volumes = (obj(g.cell_volumes) * (sx * sy)).view(SymArr)
    else:
        g.face_normals = obj(g.face_normals).view(SymArr)
        g.face_areas = obj(g.face_areas).view(SymArr)
        g.cell_volumes = (obj(g.cell_volumes) * sx).view(SymArr)


_NX = {}

_F = fractions.Fraction
TILT = {
    "x345": [[1, 0, 0], [0, _F(3, 5), _F(-4, 5)], [0, _F(4, 5), _F(3, 5)]],
    "y345": [[_F(3, 5), 0, _F(4, 5)], [0, 1, 0], [_F(-4, 5), 0, _F(3, 5)]],
    "z345": [[_F(3, 5), _F(-4, 5), 0], [_F(4, 5), _F(3, 5), 0], [0, 0, 1]],
}


def _rotate_geometry(g, R):
    """Rotates the (symbolic) geometry fields of g by the exact rational rotation R."""
    from ..sym import SReal, rv

    def rot(a):
        a = np.asarray(a, dtype=object)
        out = np.empty(a.shape, dtype=object)
        for j in range(a.shape[1]):
            for i in range(3):
                acc = 0
                for k in range(3):
                    if R[i][k] != 0:
                        acc = acc + SReal(rv(R[i][k])) * a[k, j]
                out[i, j] = acc
        return out.view(SymArr)

    g.nodes = rot(g.nodes)
    g.face_centers = rot(g.face_centers)
    g.cell_centers = rot(g.cell_centers)
    g.face_normals = rot(g.face_normals)


def _periodic_pairs(g):
    """Bottom (y = min) faces identified with the top (y = max) faces at the same x."""
    fc = np.asarray(g.face_centers, dtype=float)
    ymin, ymax = fc[1].min(), fc[1].max()
    bottom = [f for f in range(g.num_faces) if abs(fc[1, f] - ymin) < 1e-12]
    top = [f for f in range(g.num_faces) if abs(fc[1, f] - ymax) < 1e-12]
    bottom.sort(key=lambda f: fc[0, f])
    top.sort(key=lambda f: fc[0, f])
    return np.array([bottom, top])



def g_face_nx(g, f):
    return _NX[id(g)][f]


def harness(ctx, shard):
    import porepy as pp

    topo, ktype = shard["topo"], shard["k"]
    g = _grid(topo)
    _NX[id(g)] = np.asarray(g.face_normals[0]).copy()
    nc = g.num_cells
    periodic = None
    if shard.get("periodic"):
        periodic = _periodic_pairs(g)
        g.set_periodic_map(periodic)
    bfaces = g.get_boundary_faces() if periodic is not None else g.get_all_boundary_faces()
    is_dir_b = np.array(shard["bc"][: bfaces.size], dtype=bool)
    bc = pp.BoundaryCondition(g, bfaces[is_dir_b], ["dir"] * int(is_dir_b.sum()))
    symbolic_geometry = topo in ("line3", "cart2x2") and periodic is None
    if symbolic_geometry:
        sx, sy = ctx.real("dx", 0.25, 4), (ctx.real("dy", 0.25, 4) if g.dim == 2 else 1)
        _scale_geometry(g, sx, sy)
    tilt = shard.get("tilt")
    if tilt:
        _rotate_geometry(g, TILT[tilt])
    # permeability
    if ktype == "iso":
        kxx = np.array([ctx.real("kxx", 0.125, 8)] * nc, dtype=object).view(SymArr)
        kyy, kxy = kxx, None
    elif ktype == "const":
        kxx = np.array([ctx.real("kxx", 0.125, 8)] * nc, dtype=object).view(SymArr)
        kyy = np.array([ctx.real("kyy", 0.125, 8)] * nc, dtype=object).view(SymArr)
        kxy = None
    else:
        kxx, kyy = ctx.reals("kxx", nc, 0.125, 8), ctx.reals("kyy", nc, 0.125, 8)
        kxy = ctx.reals("kxy", nc, -4, 4) if ktype == "full" else None
        if kxy is not None:
            for c in range(nc):
                ctx.assume(lift(kxx[c]) * lift(kyy[c]) - lift(kxy[c]) * lift(kxy[c]) > 0)
    if g.dim == 1 or ktype == "iso":
        K = pp.SecondOrderTensor(kxx)
    else:
        K = pp.SecondOrderTensor(kxx, kyy=kyy, kxy=kxy)
    inputs = {"shard": shard, "dx": sx if symbolic_geometry else 1, "dy": sy if symbolic_geometry else 1,
              "kxx": kxx, "kyy": kyy, "kxy": kxy if kxy is not None else 0}
    a = ctx.reals("a", 2, -2, 2)
    b0 = ctx.real("b", -2, 2)
    inputs["a"], inputs["b"] = a, b0

    def case(conc):
        c = conc(inputs)
        return {k: (np.asarray(v).tolist() if isinstance(v, np.ndarray) else v) for k, v in c.items()}

    data = pp.initialize_data(g, {}, "flow", {"second_order_tensor": K, "bc": bc})
    pp.Tpfa("flow").discretize(g, data)
    md = data[pp.DISCRETIZATION_MATRICES]["flow"]
    flux, bflux = dense(md["flux"]), dense(md["bound_flux"])
    nf = g.num_faces
    ctx.check("shapes", flux.shape == (nf, nc) and bflux.shape == (nf, nf), case)
    if flux.shape != (nf, nc) or bflux.shape != (nf, nf):
        return
    div = g.cell_faces.T.toarray()
    A = np.empty((nc, nc), dtype=object)
    for i in range(nc):
        for j in range(nc):
            A[i, j] = z3.simplify(z3.Sum([lift(flux[f, j]) * int(div[i, f]) for f in range(nf) if div[i, f] != 0]
                                         + [z3.RealVal(0)]))
    for i in range(nc):
        for j in range(i + 1, nc):
            ctx.check("cell-operator-symmetric", A[i, j] == A[j, i], case)
    internal = np.setdiff1d(np.arange(nf), g.get_all_boundary_faces())
    for f in internal:
        ctx.check("interior-face-single-valued", z3.Sum([lift(v) for v in flux[f].tolist()]) == 0, case)
    if periodic is not None:
        for fl, fr in zip(periodic[0], periodic[1]):
            for c in range(nc):
                ctx.check("periodic-face-flux-single-valued", lift(flux[fl, c]) == lift(flux[fr, c]), case)
            ctx.check("periodic-face-row-sum", z3.Sum([lift(v) for v in flux[fl].tolist()]) == 0, case)
        if not any(shard["bc"]):
            for j in range(nc):
                ctx.check("closed-periodic-domain-conservative", z3.Sum([A[i, j] for i in range(nc)]) == 0, case)
    # constant pressure with matching Dirichlet data -> zero flux on every face
    cst = ctx.real("p0", -4, 4)
    pb = np.zeros(nf, dtype=object)
    dir_faces = bfaces[is_dir_b]
    for f in dir_faces:
        pb[f] = cst
    for f in range(nf):
        tot = z3.Sum([lift(flux[f, c]) * lift(cst) for c in range(nc)]
                     + [lift(bflux[f, k]) * lift(pb[k]) for k in range(nf)])
        ctx.check("constant-pressure-zero-flux", tot == 0, case)
    if ktype in ("diag", "const", "iso"):
        for i in range(nc):
            has = any(div[i, f] != 0 and (f in internal or f in dir_faces) for f in range(nf))
            if has:
                ctx.check("diagonal-positive", A[i, i] > 0, case)
            for j in range(nc):
                if i != j:
                    ctx.check("off-diagonal-non-positive", A[i, j] <= 0, case)
    if ktype in ("const", "iso") and symbolic_geometry:
        # linear pressure p = a.x + b: exact Darcy flux  F_f = -(K a) . n_f  on every face
        cc, fc, fn = g.cell_centers, g.face_centers, g.face_normals
        ax = [a[0], a[1] if g.dim == 2 else 0, 0]
        Ka = [kxx[0] * ax[0], (kyy[0] if g.dim == 2 else kxx[0]) * ax[1], 0]
        if tilt:
            # gradient in the tilted plane / along the tilted line: R (a0, a1, 0); K isotropic
            from ..sym import SReal, rv
            R = TILT[tilt]
            ax = [sum((SReal(rv(R[i][k])) * ax[k] for k in range(2) if R[i][k] != 0), 0) for i in range(3)]
            Ka = [kxx[0] * ax[i] for i in range(3)]
        p_c = [ax[0] * cc[0, c] + ax[1] * cc[1, c] + ax[2] * cc[2, c] + b0 for c in range(nc)]
        exact = [-(Ka[0] * fn[0, f] + Ka[1] * fn[1, f] + Ka[2] * fn[2, f]) for f in range(nf)]
        sgn = {int(f): int(g.cell_faces[f].data[0]) for f in bfaces}
        pbl = np.zeros(nf, dtype=object)
        for k, f in enumerate(bfaces):
            if is_dir_b[k]:
                pbl[f] = ax[0] * fc[0, f] + ax[1] * fc[1, f] + ax[2] * fc[2, f] + b0
            else:
                pbl[f] = exact[f] * sgn[int(f)]          # Neumann datum: outward flux
        for f in range(nf):
            tot = z3.Sum([lift(flux[f, c]) * lift(p_c[c]) for c in range(nc)]
                         + [lift(bflux[f, k]) * lift(pbl[k]) for k in range(nf)])
            ctx.check("linear-pressure-exact-flux", tot == lift(exact[f]), case)
    m = ctx.reach("end")
    if m is not None:
        ctx.validate_replay("float-run", case, model=m)
    ctx.sample({"shard": shard, "A00": str(A[0, 0])[:160]})


def run_shard(ex, shard):
    ex.run(harness, label=str(shard), args=(shard,))


# ---------------------------------------------------------------- real-code side


def concrete_run(case):
    raise NotImplementedError


def replay_case(case):
    import porepy as pp

    shard = case["shard"]
    topo, ktype = shard["topo"], shard["k"]
    dx, dy = float(case["dx"]), float(case["dy"])
    if topo == "line3":
        g = pp.CartGrid([3], [3.0 * dx])
    elif topo == "cart2x2":
        g = pp.CartGrid([2, 2], [2.0 * dx, 2.0 * dy])
    else:
        g = pp.StructuredTriangleGrid([1, 1], [1.0, 1.0])
    tilt = shard.get("tilt")
    Rf = np.array([[float(x) for x in row] for row in TILT[tilt]]) if tilt else np.eye(3)
    if tilt:
        g.nodes = Rf @ g.nodes
    g.compute_geometry()
    nc, nf = g.num_cells, g.num_faces
    periodic = None
    if shard.get("periodic"):
        periodic = _periodic_pairs(g)
        g.set_periodic_map(periodic)
    bfaces = g.get_boundary_faces() if periodic is not None else g.get_all_boundary_faces()
    is_dir_b = np.array(shard["bc"][: bfaces.size], dtype=bool)
    bc = pp.BoundaryCondition(g, bfaces[is_dir_b], ["dir"] * int(is_dir_b.sum()))
    kxx = np.broadcast_to(np.array(case["kxx"], dtype=float), (nc,)).copy()
    kyy = np.broadcast_to(np.array(case["kyy"], dtype=float), (nc,)).copy()
    kxy = np.broadcast_to(np.array(case["kxy"], dtype=float), (nc,)).copy()
    K = pp.SecondOrderTensor(kxx) if (g.dim == 1 or ktype == "iso") else pp.SecondOrderTensor(kxx, kyy=kyy, kxy=kxy)
    data = pp.initialize_data(g, {}, "flow", {"second_order_tensor": K, "bc": bc})
    pp.Tpfa("flow").discretize(g, data)
    md = data[pp.DISCRETIZATION_MATRICES]["flow"]
    flux, bflux = md["flux"].toarray(), md["bound_flux"].toarray()
    A = (g.cell_faces.T @ md["flux"]).toarray()
    sc = 1 + np.abs(A).max()
    if not np.allclose(A, A.T, atol=1e-9 * sc):
        return True, f"div*flux not symmetric: {A.tolist()}"
    internal = np.setdiff1d(np.arange(nf), g.get_all_boundary_faces())
    if np.abs(flux[internal].sum(axis=1)).max(initial=0) > 1e-9 * sc:
        return True, "interior face flux not single valued (row sum != 0)"
    if periodic is not None:
        if not np.allclose(flux[periodic[0]], flux[periodic[1]], atol=1e-9 * sc):
            return True, f"flux over identified periodic faces differs: {flux[periodic[0]].tolist()} vs {flux[periodic[1]].tolist()}"
        if not any(shard["bc"]) and np.abs(A.sum(axis=0)).max() > 1e-9 * sc:
            return True, "closed periodic domain is not conservative (column sums of div*flux non-zero)"
    pb = np.zeros(nf)
    pb[bfaces[is_dir_b]] = 1.7
    if np.abs(flux @ np.full(nc, 1.7) + bflux @ pb).max() > 1e-9 * sc:
        return True, "constant pressure produces a flux"
    if ktype in ("diag", "const", "iso"):
        off = A - np.diag(np.diag(A))
        if off.max() > 1e-12 * sc:
            return True, f"positive off-diagonal entry in the K-orthogonal case: {A.tolist()}"
        for i in range(nc):
            if np.abs(A[i]).max() > 0 and A[i, i] <= 0:
                return True, "non-positive diagonal"
    if ktype in ("const", "iso") and topo != "tri2":
        a = np.array(case["a"], dtype=float)
        b0 = float(case["b"])
        a3 = np.array([a[0], a[1] if g.dim == 2 else 0.0, 0.0])
        Ka = np.array([kxx[0] * a3[0], (kyy[0] if g.dim == 2 else kxx[0]) * a3[1], 0.0])
        if tilt:
            a3 = Rf @ a3
            Ka = kxx[0] * a3
        p_c = a3 @ g.cell_centers + b0
        exact = -(Ka @ g.face_normals)
        pbl = np.zeros(nf)
        for k, f in enumerate(bfaces):
            sgn = g.cell_faces[f].data[0]
            pbl[f] = (a3 @ g.face_centers[:, f] + b0) if is_dir_b[k] else exact[f] * sgn
        got = flux @ p_c + bflux @ pbl
        if np.abs(got - exact).max() > 1e-8 * (1 + np.abs(exact).max()):
            return True, f"linear pressure: TPFA flux {got.tolist()} != exact Darcy flux {exact.tolist()}"
    return False, "ok"
