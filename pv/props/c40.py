"""C40 — material tensors are symmetric and transform as tensors."""
from __future__ import annotations

import fractions
import itertools

import numpy as np
import z3

from ..arr import SymArr, lift_array, sa
from ..sym import SReal, lift, rv

PID = "C40"
TARGET_PREFIXES = ("params/tensor",)

META = {
    "explanation": "SecondOrderTensor/FourthOrderTensor constructors, rotate, restrict_to_cells, copy on "
                   "symbolic cell-wise parameters; rotation: symbolic planar (c,s) with c^2+s^2=1 about each "
                   "axis and exact rational 3-D rotations",
    "assumptions": ["floats as exact reals", "2 cells (3 for restriction)",
                    "rotation matrices satisfy R^T R = I exactly (symbolic c,s with c*c+s*s=1, or rational)"],
    "stubs": ["np.tensordot runs on object arrays (numpy itself)"],
    "outside": ["rounding error in R", "eigen-decomposition itself (invariants trace, second invariant, det are "
                "checked instead)"],
}

NC = 2


def _rational_rotations():
    """Exact rational rotation matrices from unit quaternions with integer components."""
    out = []
    for q in [(1, 1, 0, 0), (1, 2, 2, 0), (1, 1, 1, 1), (2, 1, 0, 2), (0, 1, 2, 2), (3, 2, 0, 6), (1, 0, 1, 0),
              (1, 4, 8, 0), (2, 3, 6, 0), (1, 2, 4, 2), (0, 0, 1, 0), (5, 1, 1, 1)]:
        a, b, c, d = (fractions.Fraction(x) for x in q)
        n = a * a + b * b + c * c + d * d
        R = [[(a * a + b * b - c * c - d * d) / n, 2 * (b * c - a * d) / n, 2 * (b * d + a * c) / n],
             [2 * (b * c + a * d) / n, (a * a - b * b + c * c - d * d) / n, 2 * (c * d - a * b) / n],
             [2 * (b * d - a * c) / n, 2 * (c * d + a * b) / n, (a * a - b * b - c * c + d * d) / n]]
        out.append(R)
    return out


def shards(tier, seed):
    out = [{"kind": "second-construct"}, {"kind": "second-reject"}, {"kind": "fourth"}, {"kind": "restrict"},
           {"kind": "copy"}]
    for ax in range(3):
        out.append({"kind": "rotate-planar", "axis": ax})
    nr = 4 if tier == "quick" else 12
    for i in range(nr):
        out.append({"kind": "rotate-rational", "index": i})
    # storage-type adjunct (concrete, no symbolic content possible): components given as integer-typed
    # arrays must behave like the same numbers given as floats
    out.append({"kind": "dtype"})
    return out


def configure(cfg, tier):
    cfg.incremental_first = False
    cfg.query_timeout_ms = 20000 if tier == "quick" else 60000


def _sym_components(ctx, nc=NC, tag="k"):
    comp = {n: ctx.reals(f"{tag}{n}", nc) for n in ("xx", "yy", "zz", "xy", "xz", "yz")}
    return comp


def _assume_spd(ctx, comp, nc=NC):
    for c in range(nc):
        kxx, kyy, kzz = (lift(comp[n][c]) for n in ("xx", "yy", "zz"))
        kxy, kxz, kyz = (lift(comp[n][c]) for n in ("xy", "xz", "yz"))
        ctx.assume(kxx > 0)
        ctx.assume(kxx * kyy - kxy * kxy > 0)
        ctx.assume(kxx * (kyy * kzz - kyz * kyz) - kxy * (kxy * kzz - kxz * kyz)
                   + kxz * (kxy * kyz - kxz * kyy) > 0)


def _mk(comp):
    import porepy as pp

    return pp.SecondOrderTensor(comp["xx"].copy(), kyy=comp["yy"].copy(), kzz=comp["zz"].copy(),
                                kxy=comp["xy"].copy(), kxz=comp["xz"].copy(), kyz=comp["yz"].copy())


def _expected_matrix(comp, c):
    return [[comp["xx"][c], comp["xy"][c], comp["xz"][c]],
            [comp["xy"][c], comp["yy"][c], comp["yz"][c]],
            [comp["xz"][c], comp["yz"][c], comp["zz"][c]]]


def _case_of(inputs):
    def case(conc):
        return _json(conc(inputs))
    return case


def h_second_construct(ctx):
    comp = _sym_components(ctx)
    _assume_spd(ctx, comp)
    case = _case_of({"kind": "construct", "comp": comp})
    K = _mk(comp)
    v = K.values
    ctx.check("shape", tuple(v.shape) == (3, 3, NC), case)
    for c in range(NC):
        E = _expected_matrix(comp, c)
        for i in range(3):
            for j in range(3):
                ctx.check("symmetric", lift(v[i, j, c]) == lift(v[j, i, c]), case)
                ctx.check("entries", lift(v[i, j, c]) == lift(E[i][j]), case)
    # partial constructors: isotropic and 2-d
    import porepy as pp

    K1 = pp.SecondOrderTensor(comp["xx"].copy())
    for c in range(NC):
        for i in range(3):
            for j in range(3):
                exp = comp["xx"][c] if i == j else 0
                ctx.check("isotropic-default", lift(K1.values[i, j, c]) == lift(exp), case)
    K2 = pp.SecondOrderTensor(comp["xx"].copy(), kyy=comp["yy"].copy(), kxy=comp["xy"].copy())
    for c in range(NC):
        # (kzz defaults to kxx in the constructor)
        E = [[comp["xx"][c], comp["xy"][c], 0], [comp["xy"][c], comp["yy"][c], 0], [0, 0, comp["xx"][c]]]
        for i in range(3):
            for j in range(3):
                ctx.check("two-d-default", lift(K2.values[i, j, c]) == lift(E[i][j]), case)
    m = ctx.reach("end")
    if m is not None:
        ctx.validate_replay("float-run", case, model=m)
    ctx.sample({"construct": str(v[0, 1, 0])})


def h_second_reject(ctx):
    """Inadmissible parameters (a negative leading minor in some cell) are rejected."""
    import porepy as pp

    comp = _sym_components(ctx)
    case = _case_of({"kind": "reject", "comp": comp})
    minors_ok = []
    for c in range(NC):
        kxx, kyy, kzz = (lift(comp[n][c]) for n in ("xx", "yy", "zz"))
        kxy, kxz, kyz = (lift(comp[n][c]) for n in ("xy", "xz", "yz"))
        minors_ok += [kxx >= 0, kxx * kyy - kxy * kxy >= 0,
                      kxx * (kyy * kzz - kyz * kyz) - kxy * (kxy * kzz - kxz * kyz)
                      + kxz * (kxy * kyz - kxz * kyy) >= 0]
    try:
        _mk(comp)
        raised = False
    except ValueError:
        raised = True
    # on this path the constructor's own tests were decided; the verdict must match the minors
    if raised:
        ctx.check("rejects-only-inadmissible", z3.Not(z3.And(minors_ok)), case)
    else:
        ctx.check("accepts-only-admissible", z3.And(minors_ok), case)
    ctx.reach("end")
    ctx.sample({"reject-path": ctx.idx, "raised": raised})


def h_fourth(ctx):
    import porepy as pp

    mu, lm = ctx.reals("mu", NC), ctx.reals("lmbda", NC)
    case = _case_of({"kind": "fourth", "mu": mu, "lmbda": lm})
    C = pp.FourthOrderTensor(mu.copy(), lm.copy())
    v = C.values
    ctx.check("shape", tuple(v.shape) == (9, 9, NC), case)
    for c in range(NC):
        for i in range(9):
            for j in range(9):
                ctx.check("symmetric", lift(v[i, j, c]) == lift(v[j, i, c]), case)
        # C_ijkl = lambda d_ij d_kl + mu (d_ik d_jl + d_il d_jk), flattened index 3*i + j
        for i, j, k, l in itertools.product(range(3), repeat=4):
            exp = (lm[c] if (i == j and k == l) else 0) + (mu[c] if (i == k and j == l) else 0) \
                + (mu[c] if (i == l and j == k) else 0)
            ctx.check("lame-form", lift(v[3 * i + j, 3 * k + l, c]) == lift(exp), case)
    m = ctx.reach("end")
    if m is not None:
        ctx.validate_replay("float-run", case, model=m)
    ctx.sample({"fourth": str(v[0, 0, 0])})


def h_restrict(ctx):
    import porepy as pp

    nc = 3
    comp = _sym_components(ctx, nc)
    _assume_spd(ctx, comp, nc)
    mu, lm = ctx.reals("mu", nc), ctx.reals("lmbda", nc)
    K = pp.SecondOrderTensor(comp["xx"].copy(), kyy=comp["yy"].copy(), kzz=comp["zz"].copy(),
                             kxy=comp["xy"].copy(), kxz=comp["xz"].copy(), kyz=comp["yz"].copy())
    C = pp.FourthOrderTensor(mu.copy(), lm.copy())
    for cells in ([0], [2, 0], [1, 2], [2, 1, 0]):
        case = _case_of({"kind": "restrict", "comp": comp, "mu": mu, "lmbda": lm, "cells": cells})
        idx = np.array(cells)
        Kr, Cr = K.restrict_to_cells(idx), C.restrict_to_cells(idx)
        ctx.check("restrict-shape", tuple(Kr.values.shape) == (3, 3, len(cells))
                  and tuple(Cr.values.shape) == (9, 9, len(cells)), case)
        for n, c in enumerate(cells):
            for i in range(3):
                for j in range(3):
                    ctx.check("restrict-second", lift(Kr.values[i, j, n]) == lift(K.values[i, j, c]), case)
            for i in range(9):
                for j in range(9):
                    ctx.check("restrict-fourth", lift(Cr.values[i, j, n]) == lift(C.values[i, j, c]), case)
            ctx.check("restrict-fields", z3.And(lift(Cr.mu[n]) == lift(mu[c]), lift(Cr.lmbda[n]) == lift(lm[c])), case)
        # the original keeps all its cells
        ctx.check("restrict-leaves-original", tuple(K.values.shape) == (3, 3, nc) and C.mu.size == nc, case)
    ctx.reach("end")
    ctx.sample({"restrict": "cells [2,0] of 3"})


def h_copy(ctx):
    import porepy as pp

    comp = _sym_components(ctx)
    _assume_spd(ctx, comp)
    mu, lm = ctx.reals("mu", NC), ctx.reals("lmbda", NC)
    case = _case_of({"kind": "copy", "comp": comp, "mu": mu, "lmbda": lm})
    K = _mk(comp)
    C = pp.FourthOrderTensor(mu.copy(), lm.copy())
    K0, C0 = np.asarray(K.values, dtype=object).copy(), np.asarray(C.values, dtype=object).copy()
    Kc, Cc = K.copy(), C.copy()
    for idx in np.ndindex(3, 3, NC):
        ctx.check("copy-equal", lift(Kc.values[idx]) == lift(K0[idx]), case)
    for idx in np.ndindex(9, 9, NC):
        ctx.check("copy-equal", lift(Cc.values[idx]) == lift(C0[idx]), case)
    # mutate the copies everywhere
    Kc.values[:] = ctx.fresh_real("mut")
    Cc.values[:] = ctx.fresh_real("mut")
    Cc.mu[:] = ctx.fresh_real("mut")
    Cc.lmbda[:] = ctx.fresh_real("mut")
    for idx in np.ndindex(3, 3, NC):
        ctx.check("copy-independent", lift(K.values[idx]) == lift(K0[idx]), case)
    for idx in np.ndindex(9, 9, NC):
        ctx.check("copy-independent", lift(C.values[idx]) == lift(C0[idx]), case)
    for c in range(NC):
        ctx.check("copy-independent", z3.And(lift(C.mu[c]) == lift(mu[c]), lift(C.lmbda[c]) == lift(lm[c])), case)
    # and the other direction
    K2 = K.copy()
    K.values[:] = ctx.fresh_real("mut")
    for idx in np.ndindex(3, 3, NC):
        ctx.check("copy-independent", lift(K2.values[idx]) == lift(K0[idx]), case)
    m = ctx.reach("end")
    if m is not None:
        ctx.validate_replay("float-run", case, model=m)
    ctx.sample({"copy": "values/mu/lmbda of the copy overwritten with fresh symbols"})


def _rot_obligations(ctx, comp, R, case):
    K = _mk(comp)
    K.rotate(R)
    v = K.values
    Ro = np.asarray(R, dtype=object)
    for c in range(NC):
        E = np.array(_expected_matrix(comp, c), dtype=object)
        RKRt = Ro.dot(E).dot(Ro.T)
        for i in range(3):
            for j in range(3):
                ctx.check("similarity", lift(v[i, j, c]) == lift(RKRt[i, j]), case)
                ctx.check("rotated-symmetric", lift(v[i, j, c]) == lift(v[j, i, c]), case)
        tr0 = E[0, 0] + E[1, 1] + E[2, 2]
        tr1 = v[0, 0, c] + v[1, 1, c] + v[2, 2, c]
        ctx.check("trace-invariant", lift(tr0) == lift(tr1), case)

        def second(M):
            return (M[0][0] * M[1][1] - M[0][1] * M[1][0] + M[0][0] * M[2][2] - M[0][2] * M[2][0]
                    + M[1][1] * M[2][2] - M[1][2] * M[2][1])

        def det(M):
            return (M[0][0] * (M[1][1] * M[2][2] - M[1][2] * M[2][1])
                    - M[0][1] * (M[1][0] * M[2][2] - M[1][2] * M[2][0])
                    + M[0][2] * (M[1][0] * M[2][1] - M[1][1] * M[2][0]))

        V = [[v[i, j, c] for j in range(3)] for i in range(3)]
        ctx.check("second-invariant", lift(second(E.tolist())) == lift(second(V)), case)
        ctx.check("determinant-invariant", lift(det(E.tolist())) == lift(det(V)), case)


def h_rotate_planar(ctx, axis):
    comp = _sym_components(ctx)
    _assume_spd(ctx, comp)
    c_, s_ = ctx.real("cos"), ctx.real("sin")
    ctx.assume(lift(c_) * lift(c_) + lift(s_) * lift(s_) == 1)
    R = np.empty((3, 3), dtype=object)
    R.fill(0)
    a, b = [(1, 2), (0, 2), (0, 1)][axis]
    R[axis, axis] = 1
    R[a, a], R[a, b], R[b, a], R[b, b] = c_, -s_, s_, c_
    R = R.view(SymArr)
    case = _case_of({"kind": "rotate", "comp": comp, "R": R.copy()})
    _rot_obligations(ctx, comp, R, case)
    ctx.reach("end")
    ctx.sample({"rotate-planar-axis": axis})


def h_rotate_rational(ctx, index):
    comp = _sym_components(ctx)
    _assume_spd(ctx, comp)
    Rf = _rational_rotations()[index]
    R = np.empty((3, 3), dtype=object)
    for i in range(3):
        for j in range(3):
            R[i, j] = SReal(rv(Rf[i][j]))
    R = R.view(SymArr)
    case = _case_of({"kind": "rotate", "comp": comp, "R": [[float(x) for x in r] for r in Rf]})
    _rot_obligations(ctx, comp, R, case)
    m = ctx.reach("end")
    if m is not None:
        ctx.validate_replay("float-run", case, model=m)
    ctx.sample({"rotate-rational": [[str(x) for x in r] for r in Rf]})


def _dtype_problems():
    import porepy as pp

    problems = []
    ints = {"xx": np.array([1, 2, 3, 4]), "yy": np.array([2, 3, 4, 5]), "zz": np.array([5, 7, 9, 11]),
            "xy": np.array([0, 1, 0, 1]), "xz": np.array([0, 0, 1, 0]), "yz": np.array([1, 0, 0, 1])}
    R = np.array([[0.6, -0.8, 0.0], [0.8, 0.6, 0.0], [0.0, 0.0, 1.0]]) @ np.array([[1.0, 0, 0], [0, 0.6, -0.8], [0, 0.8, 0.6]])
    for typ in (np.int64, np.int32):
        ki = pp.SecondOrderTensor(ints["xx"].astype(typ), kyy=ints["yy"].astype(typ), kzz=ints["zz"].astype(typ),
                                  kxy=ints["xy"].astype(typ), kxz=ints["xz"].astype(typ), kyz=ints["yz"].astype(typ))
        kf = pp.SecondOrderTensor(*[ints[n].astype(float) for n in ("xx",)],
                                  **{f"k{n}": ints[n].astype(float) for n in ("yy", "zz", "xy", "xz", "yz")})
        if not np.allclose(ki.values, kf.values):
            problems.append(f"{typ.__name__}: constructed values differ from the float construction")
        ki.rotate(R)
        kf.rotate(R)
        if not np.allclose(ki.values, kf.values, atol=1e-12):
            problems.append(f"{typ.__name__}: rotated values differ from the float construction by "
                            f"{np.abs(ki.values - kf.values).max()}")
        sub_i, sub_f = ki.copy(), kf.copy()
        if not np.allclose(sub_i.values, sub_f.values, atol=1e-12):
            problems.append(f"{typ.__name__}: copy differs")
    return problems


def h_dtype(ctx):
    case = lambda conc: {"kind": "dtype"}  # noqa: E731
    ctx.check("integer-typed-components-behave-like-floats", not _dtype_problems(), case)
    ctx.reach("end")
    ctx.sample({"kind": "dtype"})


def run_shard(ex, shard):
    k = shard["kind"]
    if k == "dtype":
        ex.run(h_dtype, label=k)
        return
    if k == "second-construct":
        ex.run(h_second_construct, label=k)
    elif k == "second-reject":
        ex.run(h_second_reject, label=k)
    elif k == "fourth":
        ex.run(h_fourth, label=k)
    elif k == "restrict":
        ex.run(h_restrict, label=k)
    elif k == "copy":
        ex.run(h_copy, label=k)
    elif k == "rotate-planar":
        ex.run(h_rotate_planar, label=f"{k}{shard['axis']}", args=(shard["axis"],))
    else:
        ex.run(h_rotate_rational, label=f"{k}{shard['index']}", args=(shard["index"],))


def _json(c):
    if isinstance(c, dict):
        return {k: _json(v) for k, v in c.items()}
    if isinstance(c, np.ndarray):
        return c.tolist()
    if isinstance(c, (list, tuple)):
        return [_json(v) for v in c]
    return c


# ---------------------------------------------------------------- real-code side


def concrete_run(case):
    raise NotImplementedError


def _real_second(comp):
    import porepy as pp

    a = {k: np.array(v, dtype=float) for k, v in comp.items()}
    return pp.SecondOrderTensor(a["xx"].copy(), kyy=a["yy"].copy(), kzz=a["zz"].copy(), kxy=a["xy"].copy(),
                                kxz=a["xz"].copy(), kyz=a["yz"].copy()), a


def replay_case(case):
    import porepy as pp

    kind = case["kind"]
    tol = 1e-9
    if kind == "dtype":
        probs = _dtype_problems()
        return (True, f"SecondOrderTensor from integer arrays: {probs}") if probs else (False, "ok")
    if kind in ("construct", "copy", "rotate", "restrict"):
        K, a = _real_second(case["comp"])
        nc = a["xx"].size
        E = np.zeros((3, 3, nc))
        E[0, 0], E[1, 1], E[2, 2] = a["xx"], a["yy"], a["zz"]
        E[0, 1] = E[1, 0] = a["xy"]
        E[0, 2] = E[2, 0] = a["xz"]
        E[1, 2] = E[2, 1] = a["yz"]
    if kind == "construct":
        if not np.allclose(K.values, E, atol=tol):
            return True, f"constructed values differ from the symmetric matrix of the inputs: {K.values[:, :, 0].tolist()}"
        K1 = pp.SecondOrderTensor(a["xx"].copy())
        if not all(np.allclose(K1.values[:, :, c], np.eye(3) * a["xx"][c]) for c in range(nc)):
            return True, "isotropic default tensor is not kxx * I"
        K2 = pp.SecondOrderTensor(a["xx"].copy(), kyy=a["yy"].copy(), kxy=a["xy"].copy())
        for c in range(nc):
            E2 = np.array([[a["xx"][c], a["xy"][c], 0], [a["xy"][c], a["yy"][c], 0], [0, 0, a["xx"][c]]])
            if not np.allclose(K2.values[:, :, c], E2):
                return True, "2-d default tensor wrong"
        return False, "ok"
    if kind == "reject":
        a = {k: np.array(v, dtype=float) for k, v in case["comp"].items()}
        ok = True
        for c in range(a["xx"].size):
            M = np.array([[a["xx"][c], a["xy"][c], a["xz"][c]], [a["xy"][c], a["yy"][c], a["yz"][c]],
                          [a["xz"][c], a["yz"][c], a["zz"][c]]])
            minors = [M[0, 0], np.linalg.det(M[:2, :2]), np.linalg.det(M)]
            if min(minors) < -1e-9:
                ok = False
            elif min(minors) < 1e-9:
                return False, "borderline minors"
        try:
            _real_second(case["comp"])
            raised = False
        except ValueError:
            raised = True
        if raised == ok:
            return True, f"constructor raised={raised} although admissible={ok}"
        return False, "ok"
    if kind == "fourth":
        mu, lm = np.array(case["mu"], dtype=float), np.array(case["lmbda"], dtype=float)
        C = pp.FourthOrderTensor(mu.copy(), lm.copy())
        for c in range(mu.size):
            if not np.allclose(C.values[:, :, c], C.values[:, :, c].T):
                return True, "fourth-order tensor not symmetric"
            for i, j, k, l in itertools.product(range(3), repeat=4):
                exp = lm[c] * (i == j and k == l) + mu[c] * (i == k and j == l) + mu[c] * (i == l and j == k)
                if abs(C.values[3 * i + j, 3 * k + l, c] - exp) > tol * (1 + abs(exp)):
                    return True, f"C[{i}{j}{k}{l}] = {C.values[3*i+j, 3*k+l, c]} != {exp}"
        return False, "ok"
    if kind == "rotate":
        R = np.array(case["R"], dtype=float)
        K.rotate(R)
        for c in range(nc):
            exp = R @ E[:, :, c] @ R.T
            if not np.allclose(K.values[:, :, c], exp, atol=1e-7 * (1 + np.abs(exp).max())):
                return True, f"rotate: {K.values[:, :, c].tolist()} != R K R^T {exp.tolist()}"
        return False, "ok"
    if kind == "restrict":
        mu, lm = np.array(case["mu"], dtype=float), np.array(case["lmbda"], dtype=float)
        C = pp.FourthOrderTensor(mu.copy(), lm.copy())
        idx = np.array(case["cells"])
        Kr, Cr = K.restrict_to_cells(idx), C.restrict_to_cells(idx)
        if Kr.values.shape != (3, 3, idx.size) or not np.allclose(Kr.values, K.values[:, :, idx]):
            return True, "second-order restriction picks the wrong cells"
        if not np.allclose(Cr.values, C.values[:, :, idx]) or not np.allclose(Cr.mu, mu[idx]) \
                or not np.allclose(Cr.lmbda, lm[idx]):
            return True, "fourth-order restriction picks the wrong cells"
        if K.values.shape[2] != nc or C.mu.size != nc:
            return True, "restriction modified the original"
        return False, "ok"
    if kind == "copy":
        mu, lm = np.array(case["mu"], dtype=float), np.array(case["lmbda"], dtype=float)
        C = pp.FourthOrderTensor(mu.copy(), lm.copy())
        K0, C0 = K.values.copy(), C.values.copy()
        Kc, Cc = K.copy(), C.copy()
        if not (np.allclose(Kc.values, K0) and np.allclose(Cc.values, C0)):
            return True, "copy differs from the original"
        Kc.values[:] = 77.0
        Cc.values[:] = 77.0
        Cc.mu[:] = 77.0
        Cc.lmbda[:] = 77.0
        if not (np.array_equal(K.values, K0) and np.array_equal(C.values, C0) and np.array_equal(C.mu, mu)
                and np.array_equal(C.lmbda, lm)):
            return True, "mutating the copy changed the original"
        K2 = K.copy()
        K.values[:] = 55.0
        if not np.array_equal(K2.values, K0):
            return True, "mutating the original changed the copy"
        return False, "ok"
    return False, "unknown kind"
