"""C07 — Schur complement reduction reproduces the full solution.

For symbolic coefficients, state and an ARBITRARY symbolic reduced vector x_p, the expanded vector
X satisfies, row by row of the full system (J, b):
    secondary rows:  (J X - b) = 0
    primary rows:    (J X - b) = (S x_p - rhs_S)       (the residual of the reduced system)
so that solving S x_p = rhs_S and expanding solves J X = b.  No solve is needed; these are
identities that z3 decides for all values.
"""
from __future__ import annotations

import numpy as np
import z3

from ..adutil import dense
from ..arr import SymArr, lift_array
from ..sparse import SymSparse
from ..sym import SReal, lift
from . import _eqsys
from .c06 import E1_GRID_ROWS

FULL_ROWS = {"E1": list(range(0, 6)), "E3": list(range(6, 10))}   # square system: E1 (6) + E3 (4), 10 dofs
EQS = ("E1", "E3")

PID = "C07"
TARGET_PREFIXES = ("numerics/ad/equation_system", "numerics/linalg/matrix_operations")

META = {
    "explanation": "assemble_schur_complement_system + expand_schur_complement_solution on symbolic systems; "
                   "identities (J X - b)[secondary] = 0 and (J X - b)[primary] = S x_p - rhs_S for arbitrary x_p",
    "assumptions": ["floats as exact reals", "secondary diagonal entries non-zero (invertibility)",
                    "equation system of pv/props/_eqsys.py (14 dofs)", "second system (18 dofs): one primary and two secondary variables on two grids, secondary block a generalised permutation matrix, default inverter"],
    "stubs": ["inverter of the secondary block: exact reciprocal of the diagonal (harness inverter) and the "
              "default inverter with np.linalg.inv as contract stub (A X = I) on the 1x1/2x2 blocks"],
    "outside": ["numerical quality of the inverse", "secondary blocks larger than the ones of this system"],
}

# splits: (primary equations argument, primary variables, secondary full rows in system order)
SPLITS = {
    "E1|x": (["E1"], ["x"]),
    "E3|lam": (["E3"], ["lam"]),
    "E1m,E3|xm,lam (grid-restricted primary)": (["E1:matrix", "E3"], ["xm", "lam"]),
    "E3,E1m|lam,xm (argument order swapped)": (["E3", "E1:matrix"], ["lam", "xm"]),
    "E1f|xf... not square -> skipped": None,
}
SPLITS = {k: v for k, v in SPLITS.items() if v is not None}


def shards(tier, seed):
    out = []
    for name in SPLITS:
        out.append({"split": name, "inverter": "diag", "local": True})
        if tier == "thorough" or name.startswith("E1|x"):
            out.append({"split": name, "inverter": "default", "local": True})
    out.append({"split": "perm", "inverter": "default", "local": True})
    return out


def configure(cfg, tier):
    cfg.incremental_first = False
    cfg.query_timeout_ms = 30000 if tier == "quick" else 120000


def _diag_inverter(A):
    """Exact inverse of a diagonal secondary block."""
    D = dense(A)
    n = D.shape[0]
    out = np.empty((n, n), dtype=object)
    out.fill(0)
    for i in range(n):
        for j in range(n):
            if i != j and not (isinstance(D[i, j], (int, float)) and D[i, j] == 0):
                z = z3.simplify(lift(D[i, j]))
                if not (z3.is_rational_value(z) and z.as_fraction() == 0):
                    raise ValueError("secondary block is not diagonal")
        out[i, i] = 1 / D[i, i]
    return SymSparse(out, "csr", np.eye(n, dtype=bool))


def _split_args(env, split):
    eqs, vars_ = SPLITS[split]
    es = env["es"]
    gridmap = {"matrix": env["matrix"][0], "fracture": [g for g in env["sds"] if g.dim == 1][0]}
    xm = env["xm"]
    xf = [v for v in env["x"].sub_vars if v is not xm][0]
    vmap = {"x": env["x"], "lam": env["lam"], "xm": xm, "xf": xf}
    restricted = any(":" in e for e in eqs)
    prim_rows = {}
    if restricted:
        eq_arg = {}
        for e in eqs:
            if ":" in e:
                n, g = e.split(":")
                eq_arg[n] = [gridmap[g]]
                prim_rows[n] = list(E1_GRID_ROWS[g])
            else:
                eq_arg[e] = list(env["intfs"]) if e == "E3" else list(env["sds"])
                prim_rows[e] = list(FULL_ROWS[e])
    else:
        eq_arg = list(eqs)
        prim_rows = {e: list(FULL_ROWS[e]) for e in eqs}
    P = []
    for name in EQS:
        if name in prim_rows:
            P += prim_rows[name]
    # secondary rows: excluded rows of restricted primary equations first (system order), then the others
    S = []
    for name in EQS:
        if name in prim_rows:
            S += [r for r in FULL_ROWS[name] if r not in prim_rows[name]]
    for name in EQS:
        if name not in prim_rows:
            S += FULL_ROWS[name]
    var_arg = [vmap[v] for v in vars_]
    pc = sorted(int(i) for v in vars_ for i in es.dofs_of([vmap[v]]))
    sc = [i for i in range(es.num_dofs()) if i not in pc]
    return eq_arg, var_arg, P, S, pc, sc


def harness(ctx, shard):
    coef = {}
    for name, shape in _eqsys.coefficient_shapes().items():
        coef[name] = ctx.reals(name, shape, -2, 2)
    env = _eqsys.build_system(coef, secondary_local=shard["local"], with_e2=False)
    es = env["es"]
    n = es.num_dofs()
    x = ctx.reals("s", n, -2, 2)
    eq_arg, var_arg, P, S, pc, sc = _split_args(env, shard["split"])
    xp = ctx.reals("xp", len(pc), -4, 4)
    inputs = {"coef": coef, "x": x, "xp": xp}

    def case(conc):
        c = conc(inputs)
        return {"shard": shard, "x": np.asarray(c["x"]).tolist(), "xp": np.asarray(c["xp"]).tolist(),
                "coef": {k: np.asarray(v).tolist() for k, v in c["coef"].items()}}

    J, b = es.assemble(state=x)
    J, b = dense(J), np.asarray(b, dtype=object)
    # invertibility of the secondary block (diagonal here): assumed
    ctx.check("secondary-block-square", len(S) == len(sc), case)
    if len(S) != len(sc):
        return
    for a, r in enumerate(S):
        ctx.assume(lift(J[r, sc[a]]) != 0)
    inverter = _diag_inverter if shard["inverter"] == "diag" else None
    Sm, rhs = es.assemble_schur_complement_system(eq_arg, var_arg, inverter=inverter, state=x)
    Sm, rhs = dense(Sm), np.asarray(rhs, dtype=object)
    ok = Sm.shape == (len(P), len(pc)) and rhs.shape == (len(P),) and len(P) == len(pc)
    ctx.check("reduced-shape", bool(ok), case)
    if not ok:
        return
    X = np.asarray(es.expand_schur_complement_solution(xp), dtype=object)
    ctx.check("expanded-shape", X.shape == (n,), case)
    if X.shape != (n,):
        return
    for a, c in enumerate(pc):
        ctx.check("primary-part-is-reduced-solution", lift(X[c]) == lift(xp[a]), case)
    full_res = [z3.Sum([lift(J[i, j]) * lift(X[j]) for j in range(n)]) - lift(b[i]) for i in range(n)]
    red_res = [z3.Sum([lift(Sm[a, j]) * lift(xp[j]) for j in range(len(pc))]) - lift(rhs[a])
               for a in range(len(P))]
    for r in S:
        ctx.check("secondary-rows-solved", full_res[r] == 0, case)
    for a, r in enumerate(P):
        ctx.check("primary-rows-equal-reduced-residual", full_res[r] == red_res[a], case)
    # expanding is a pure function of the assembled system: a second expansion (of another
    # arbitrary vector) and a repeated expansion of the first one give consistent results
    xq = ctx.reals("xq", len(pc), -4, 4)
    Xq = np.asarray(es.expand_schur_complement_solution(xq), dtype=object)
    X_again = np.asarray(es.expand_schur_complement_solution(xp), dtype=object)
    for i in range(n):
        ctx.check("repeated-expansion-same-result", lift(X_again[i]) == lift(X[i]), case)
    resq = [z3.Sum([lift(J[i, j]) * lift(Xq[j]) for j in range(n)]) - lift(b[i]) for i in range(n)]
    for r in S:
        ctx.check("second-expansion-secondary-rows-solved", resq[r] == 0, case)
    m = ctx.reach("end")
    if m is not None and shard["inverter"] == "diag":
        ctx.validate_replay("float-run", case, model=m)
    ctx.sample({"split": shard["split"], "inverter": shard["inverter"], "primary_rows": P, "secondary_rows": S,
                "S00": str(Sm[0, 0])[:160]})


def _system_perm(c):
    """p (primary), y and z (secondary) on the matrix and the fracture; every secondary equation depends on
    exactly one secondary variable, but rows are ordered equation-wise and dofs grid-wise: the secondary
    block is a generalised permutation matrix, not a diagonal one."""
    import porepy as pp

    mdg = _eqsys.mdg_env()["mdg"]
    _eqsys.reset_data(mdg)
    es = pp.ad.EquationSystem(mdg)
    sds = mdg.subdomains()
    pvar = es.create_variables("p", subdomains=sds)
    y = es.create_variables("y", subdomains=sds)
    z = es.create_variables("z", subdomains=sds)
    D = lambda k: pp.ad.DenseArray(c[k])  # noqa: E731
    ep = D("cp") * pvar + y + z * pvar
    ey = D("ay") * y - pvar * pvar
    ez = D("bz") * z + pvar
    for e, nm in ((ep, "Ep"), (ey, "Ey"), (ez, "Ez")):
        e.set_name(nm)
        es.set_equation(e, sds, {"cells": 1})
    return es, pvar, y, z


def h_perm(ctx, shard):
    nd = 6
    c = {k: ctx.reals(k, nd, -2, 2) for k in ("cp", "ay", "bz")}
    es, pvar, y, z = _system_perm(c)
    n = es.num_dofs()
    x = ctx.reals("s", n, -2, 2)
    xp = ctx.reals("xp", nd, -4, 4)
    inputs = {"c": c, "x": x, "xp": xp}

    def case(conc):
        cc = conc(inputs)
        return {"shard": shard, "x": np.asarray(cc["x"]).tolist(), "xp": np.asarray(cc["xp"]).tolist(),
                "c": {k: np.asarray(v).tolist() for k, v in cc["c"].items()}}

    J, b = es.assemble(state=x)
    idx = {k: list(map(int, v)) for k, v in es.assembled_equation_indices.items()}
    J, b = dense(J), np.asarray(b, dtype=object)
    P, S = idx["Ep"], idx["Ey"] + idx["Ez"]
    pc = [int(i) for i in es.dofs_of([pvar])]
    for k in ("ay", "bz"):
        for v in c[k].tolist():
            ctx.assume(z3.Or(lift(v) >= 0.125, lift(v) <= -0.125))
    Sm, rhs = es.assemble_schur_complement_system(["Ep"], [pvar], inverter=None, state=x)
    Sm, rhs = dense(Sm), np.asarray(rhs, dtype=object)
    ok = Sm.shape == (nd, nd) and rhs.shape == (nd,)
    ctx.check("reduced-shape", bool(ok), case)
    if not ok:
        return
    X = np.asarray(es.expand_schur_complement_solution(xp), dtype=object)
    ctx.check("expanded-shape", X.shape == (n,), case)
    if X.shape != (n,):
        return
    for a, col in enumerate(pc):
        ctx.check("primary-part-is-reduced-solution", lift(X[col]) == lift(xp[a]), case)
    full_res = [z3.Sum([lift(J[i, j]) * lift(X[j]) for j in range(n)]) - lift(b[i]) for i in range(n)]
    red_res = [z3.Sum([lift(Sm[a, j]) * lift(xp[j]) for j in range(nd)]) - lift(rhs[a]) for a in range(nd)]
    for r in S:
        ctx.check("secondary-rows-solved", full_res[r] == 0, case)
    for a, r in enumerate(P):
        ctx.check("primary-rows-equal-reduced-residual", full_res[r] == red_res[a], case)
    m = ctx.reach("end")
    if m is not None:
        ctx.validate_replay("float-run", case, model=m)
    ctx.sample({"system": "permutation-like secondary block", "inverter": "default"})


def run_shard(ex, shard):
    _eqsys.mdg_env()
    if shard.get("split") == "perm":
        ex.run(h_perm, label="perm-secondary/default", args=(shard,))
        return
    ex.run(harness, label=f"{shard['split']}/{shard['inverter']}", args=(shard,))


# ---------------------------------------------------------------- real-code side


def concrete_run(case):
    raise NotImplementedError


def _replay_perm(case):
    c = {k: np.array(v, dtype=float) for k, v in case["c"].items()}
    es, pvar, y, z = _system_perm(c)
    x, xp = np.array(case["x"], dtype=float), np.array(case["xp"], dtype=float)
    J, b = es.assemble(state=x)
    idx = {k: list(map(int, v)) for k, v in es.assembled_equation_indices.items()}
    J = J.toarray()
    Sm, rhs = es.assemble_schur_complement_system(["Ep"], [pvar], inverter=None, state=x)
    X = es.expand_schur_complement_solution(xp)
    res = J @ X - b
    red = Sm.toarray() @ xp - rhs
    S = idx["Ey"] + idx["Ez"]
    if np.abs(res[S]).max() > 1e-8 * (1 + np.abs(b).max()):
        return True, f"permutation-like secondary block, default inverter: secondary rows not solved by the expanded vector (max residual {np.abs(res[S]).max()})"
    if np.abs(res[idx["Ep"]] - red).max() > 1e-8 * (1 + np.abs(b).max()):
        return True, "permutation-like secondary block, default inverter: primary residual differs from the reduced residual"
    return False, "consistent"


def replay_case(case):
    if case.get("shard", {}).get("split") == "perm":
        return _replay_perm(case)
    """Solve the reduced system, expand, and compare with the full linear solve."""
    shard = case["shard"]
    coef = {k: np.array(v, dtype=float) for k, v in case["coef"].items()}
    env = _eqsys.build_system(coef, secondary_local=shard["local"], with_e2=False)
    es = env["es"]
    x = np.array(case["x"], dtype=float)
    eq_arg, var_arg, P, S, pc, sc = _split_args(env, shard["split"])
    J, b = es.assemble(state=x)
    J = J.toarray()
    if abs(np.linalg.det(J)) < 1e-8 or np.linalg.cond(J) > 1e8:
        return False, "full system (near) singular at this point"
    Sm, rhs = es.assemble_schur_complement_system(eq_arg, var_arg, state=x)
    Sm = Sm.toarray()
    if np.linalg.cond(Sm) > 1e8:
        return False, "reduced system (near) singular at this point"
    xp = np.linalg.solve(Sm, rhs)
    es.expand_schur_complement_solution(np.ones(len(pc)) + np.array(case["xp"], dtype=float) ** 2)   # an earlier expansion
    X = es.expand_schur_complement_solution(xp)
    Xf = np.linalg.solve(J, b)
    if not np.allclose(X, Xf, rtol=1e-6, atol=1e-8 * (1 + np.abs(Xf).max())):
        return True, f"split {shard['split']}: expanded Schur solution {X.tolist()} != full solution {Xf.tolist()}"
    return False, "same increment"
