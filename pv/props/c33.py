"""C33 — tessellation overlaps partition cell measures (1-d line tessellations)."""
from __future__ import annotations

import fractions

import numpy as np
import z3

from ..adutil import dense
from ..arr import SymArr, lift_array
from ..sym import SReal, lift, rv

PID = "C33"
TARGET_PREFIXES = ("geometry/intersections", "grids/match_grids")

GAP = 1.0 / 64
TOL = 1e-8

META = {
    "explanation": "intersections.line_tessellation (through segments_3d) and match_grids.match_1d on two "
                   "tessellations of the same segment with symbolic interior nodes; node coincidences are separate "
                   "paths (the code's own tolerance tests fork)",
    "assumptions": [
        "floats as exact reals", f"nodes of the two tessellations either coincide exactly or differ by >= {GAP}; cells "
        f"not shorter than {GAP} (well separated from the tolerance {TOL})",
        "segments of the second tessellation also listed in three orders that do not follow the line", "segment embedded along the x-axis and along the rational direction (3/5, 4/5, 0)",
        "quick: 1-3 x 1-3 cells along the x-axis (not 3x3), 1x2 and 2x1 along the oblique direction; thorough: 2x2 oblique, up to 3x4 along x, up to 2x3 oblique",
    ],
    "stubs": ["cell volumes / nodes of the 1-d grids assigned by the harness (compute_geometry is C19)"],
    "outside": ["triangulations / surface_tessellations / match_2d (shapely)"],
}


def shards(tier, seed):
    if tier == "quick":
        cfgs = [(2, 2, "x"), (2, 3, "x"), (3, 2, "x"), (1, 3, "x"), (1, 2, "oblique"), (2, 1, "oblique")]
    else:
        cfgs = [(2, 2, "x"), (2, 3, "x"), (3, 2, "x"), (1, 3, "x"), (3, 1, "x"), (3, 3, "x"),
                (2, 2, "oblique"), (1, 2, "oblique"), (2, 1, "oblique"), (1, 3, "oblique"), (2, 3, "oblique"),
                (3, 4, "x")]
    out = [{"na": na, "nb": nb, "dir": d} for na, nb, d in cfgs]
    # the segments of the second tessellation listed in an order that does not follow the line
    for na, nb, perm in ((1, 3, [1, 2, 0]), (2, 3, [2, 0, 1]), (2, 3, [0, 2, 1])) + (((3, 3, [1, 2, 0]),) if tier != "quick" else ()):
        out.append({"na": na, "nb": nb, "dir": "x", "perm": perm})
    return out


def configure(cfg, tier):
    cfg.simplify_div = True
    cfg.incremental_first = True
    cfg.branch_timeout_ms = 3000
    cfg.max_paths = 600


def _nodes(ctx, tag, n, L):
    """0 = x_0 < x_1 < ... < x_n = L with cells >= GAP."""
    xs = [SReal(z3.RealVal(0))] + [ctx.real(f"{tag}{i}", 0, 8) for i in range(1, n)] + [L]
    for a, b in zip(xs, xs[1:]):
        ctx.assume(lift(b) - lift(a) >= rv(GAP))
    return xs


def _embed(xs, direction):
    P = np.empty((3, len(xs)), dtype=object)
    if direction == "x":
        u = (1, 0, 0)
    else:
        u = (fractions.Fraction(3, 5), fractions.Fraction(4, 5), 0)
    for k, x in enumerate(xs):
        for d in range(3):
            P[d, k] = x * SReal(rv(u[d])) if u[d] != 0 else 0
    return P.view(SymArr)


def harness(ctx, shard):
    import porepy as pp

    na, nb = shard["na"], shard["nb"]
    L = ctx.real("L", 0.5, 8)
    xa, xb = _nodes(ctx, "a", na, L), _nodes(ctx, "b", nb, L)
    for i in range(1, na):
        for j in range(1, nb):
            d = lift(xa[i]) - lift(xb[j])
            ctx.assume(z3.Or(d == 0, d >= rv(GAP), d <= -rv(GAP)))
    inputs = {"shard": shard, "xa": xa, "xb": xb}

    def case(conc):
        c = conc(inputs)
        return {"shard": shard, "xa": [float(v) for v in c["xa"]], "xb": [float(v) for v in c["xb"]]}

    pa, pb = _embed(xa, shard["dir"]), _embed(xb, shard["dir"])
    la = np.vstack([np.arange(na), np.arange(1, na + 1)])
    lb = np.vstack([np.arange(nb), np.arange(1, nb + 1)])
    perm = shard.get("perm") or list(range(nb))
    isect = pp.intersections.line_tessellation(pa, pb, la, lb[:, perm])
    W = np.zeros((na, nb), dtype=object)
    for i, j, w in isect:
        ctx.check("overlap-non-negative", lift(w) >= 0, case)
        W[i, perm[j]] = W[i, perm[j]] + w
    for i in range(na):
        ctx.check("overlaps-sum-to-cell-measure(first)", z3.Sum([lift(W[i, j]) for j in range(nb)])
                  == lift(xa[i + 1]) - lift(xa[i]), case)
    for j in range(nb):
        ctx.check("overlaps-sum-to-cell-measure(second)", z3.Sum([lift(W[i, j]) for i in range(na)])
                  == lift(xb[j + 1]) - lift(xb[j]), case)
    # exact overlap length of each pair
    for i in range(na):
        for j in range(nb):
            lo = z3.If(lift(xa[i]) >= lift(xb[j]), lift(xa[i]), lift(xb[j]))
            hi = z3.If(lift(xa[i + 1]) <= lift(xb[j + 1]), lift(xa[i + 1]), lift(xb[j + 1]))
            ctx.check("overlap-length-exact", lift(W[i, j]) == z3.If(hi - lo >= 0, hi - lo, 0), case)
    # match_1d on grids with these nodes
    ga = pp.TensorGrid(np.arange(na + 1, dtype=float))
    gb = pp.TensorGrid(np.arange(nb + 1, dtype=float))
    for g, P, xs in ((ga, pa, xa), (gb, pb, xb)):
        g.nodes = P
        g.cell_volumes = np.array([xs[k + 1] - xs[k] for k in range(len(xs) - 1)], dtype=object).view(SymArr)
    avg = dense(pp.match_grids.match_1d(ga, gb, TOL, scaling="averaged"))
    itg = dense(pp.match_grids.match_1d(ga, gb, TOL, scaling="integrated"))
    ctx.check("match-shape", avg.shape == (na, nb) and itg.shape == (na, nb), case)
    if avg.shape == (na, nb) and itg.shape == (na, nb):
        for i in range(na):
            ctx.check("averaged-rows-sum-to-one", z3.Sum([lift(v) for v in avg[i].tolist()]) == 1, case)
        for j in range(nb):
            ctx.check("integrated-columns-sum-to-one", z3.Sum([lift(v) for v in itg[:, j].tolist()]) == 1, case)
        for v in avg.ravel().tolist() + itg.ravel().tolist():
            ctx.check("match-weights-non-negative", lift(v) >= 0, case)
    m = ctx.reach("end")
    if m is not None:
        ctx.validate_replay("float-run", case, model=m)
    if ctx.idx < 2:
        ctx.sample({"shard": shard, "path": ctx.idx, "pairs": [(int(i), int(j)) for i, j, _ in isect]})


def run_shard(ex, shard):
    ex.run(harness, label=str(shard), args=(shard,))


# ---------------------------------------------------------------- real-code side


def concrete_run(case):
    raise NotImplementedError


def replay_case(case):
    import porepy as pp

    shard = case["shard"]
    xa, xb = np.array(case["xa"], dtype=float), np.array(case["xb"], dtype=float)
    u = np.array([1.0, 0, 0]) if shard["dir"] == "x" else np.array([0.6, 0.8, 0.0])
    pa, pb = np.outer(u, xa), np.outer(u, xb)
    na, nb = xa.size - 1, xb.size - 1
    la = np.vstack([np.arange(na), np.arange(1, na + 1)])
    lb = np.vstack([np.arange(nb), np.arange(1, nb + 1)])
    W = np.zeros((na, nb))
    perm = shard.get("perm") or list(range(nb))
    for i, j, w in pp.intersections.line_tessellation(pa, pb, la, lb[:, perm]):
        if w < -1e-12:
            return True, f"negative overlap {w}"
        W[i, perm[j]] += w
    if not np.allclose(W.sum(axis=1), np.diff(xa), atol=1e-9) or not np.allclose(W.sum(axis=0), np.diff(xb), atol=1e-9):
        return True, f"overlaps {W.tolist()} do not sum to the cell lengths {np.diff(xa).tolist()} / {np.diff(xb).tolist()}"
    ga, gb = pp.TensorGrid(xa), pp.TensorGrid(xb)
    if shard["dir"] != "x":
        ga.nodes, gb.nodes = pa, pb
    ga.compute_geometry()
    gb.compute_geometry()
    avg = pp.match_grids.match_1d(ga, gb, TOL, scaling="averaged").toarray()
    itg = pp.match_grids.match_1d(ga, gb, TOL, scaling="integrated").toarray()
    if not np.allclose(avg.sum(axis=1), 1, atol=1e-9):
        return True, f"averaged rows sum to {avg.sum(axis=1).tolist()}"
    if not np.allclose(itg.sum(axis=0), 1, atol=1e-9):
        return True, f"integrated columns sum to {itg.sum(axis=0).tolist()}"
    return False, "partition"
