"""C02 — operator-tree evaluation matches direct evaluation.

Programs (operator trees of depth <= 2 over every leaf kind, both operand orders, time /
iterate shifts) are built with the real pp.ad classes on a real 2-subdomain md-grid and
evaluated through EquationSystem.evaluate on a *symbolic* state.  Oracle: the same tree
evaluated by a small reference interpreter on plain value arrays (numpy semantics), and
its Jacobian by the independent differentiator.
"""
from __future__ import annotations

import itertools
import math
import random

import numpy as np
import scipy.sparse as sps
import z3

from ..adutil import dense
from ..arr import SymArr, lift_array, sa
from ..diff import zdiff
from ..sparse import SymSparse
from ..sym import UF, SReal, lift, rv

PID = "C02"
TARGET_PREFIXES = ("numerics/ad/_ad_parser", "numerics/ad/operators", "numerics/ad/operator_functions",
                   "numerics/ad/equation_system")

META = {
    "explanation": "operator trees built with the real pp.ad classes, evaluated by the real parser on a "
                   "symbolic state; reference interpreter on value arrays + symbolic differentiation as oracle",
    "assumptions": [
        "floats modelled as exact reals; exp is an uninterpreted symbol with derivative exp",
        "state, stored previous values and array coefficients in [1/2, 2]; every divisor and every power "
        "base of the program bounded away from 0 (programs whose domain is empty are skipped and counted)",
        "md-grid: 2x2 Cartesian matrix + one 2-cell fracture + one interface (10 dofs), built concretely",
    ],
    "stubs": ["sha256 of operator leaf data (hash keys) -> hash of printed content for symbolic arrays",
              "sparse products on symbolic data -> SymSparse"],
    "axioms": ["programs in which a division by a concrete array occurs inside the argument of exp / ** are not generated "
               "(the library multiplies by the rounded reciprocal)", "log(c) = float value of math.log(c) for the concrete constants c used as power bases"],
    "outside": ["trees deeper than 2", "surrogate operators, discretization leaves", "hash-key behaviour (C45)"],
}

OPS = ["+", "-", "*", "/", "**"]

_ENV = {}


def _env():
    """Concrete md-grid + equation system (built once per process, outside sessions)."""
    if _ENV:
        return _ENV
    import porepy as pp

    mdg, _ = pp.mdg_library.square_with_orthogonal_fractures(
        "cartesian", {"cell_size": 0.5}, fracture_indices=[1])
    es = pp.ad.EquationSystem(mdg)
    # the md-variable is created fracture-first, i.e. NOT in the grid order of the md-grid:
    # its sub-variable order then differs from the global dof order
    sds = sorted(mdg.subdomains(), key=lambda g: g.dim)
    x = es.create_variables("x", subdomains=sds)
    lam = es.create_variables("lam", interfaces=mdg.interfaces())
    x2 = [v for v in x.sub_vars if v.domain.dim == 2][0]
    _ENV.update(mdg=mdg, es=es, x=x, lam=lam, n=es.num_dofs(), sds=sds, x2=x2,
                dx=es.dofs_of([x]), dx2=es.dofs_of([x2]), dl=es.dofs_of([lam]))
    return _ENV


# ---------------------------------------------------------------- program descriptors
# leaf: ("leaf", kind) ; binary: ("bin", op, L, R) ; unary: ("un", name, child)
# sizes: 6 (x on all subdomains), 4 (x on the 2D grid / interface variable), 3 (S @ size-6), 0 scalar

LEAVES = {
    # name: (size, is_operator)
    "X": (6, True), "Xp": (6, True), "Xi": (6, True), "D6": (6, True), "Dc6": (6, True),
    "X2": (4, True), "L": (4, True), "Lp": (4, True), "D4": (4, True),
    "S": (0, True), "f": (0, False), "i": (0, False),
    "a6": (6, False), "a4": (4, False), "sa6": (6, False),
}
UNARY = ["exp", "neg", "prev_t", "prev_i", "S@", "R@"]


def size_of(p):
    if p[0] == "leaf":
        return LEAVES[p[1]][0]
    if p[0] == "bin":
        a, b = size_of(p[2]), size_of(p[3])
        return max(a, b)
    if p[0] == "un":
        if p[1] == "S@":
            return 3
        if p[1] == "R@":
            return 4
        return size_of(p[2])
    raise ValueError(p)


def is_op(p):
    return p[0] != "leaf" or LEAVES[p[1]][1]


def admissible(p):
    if p[0] == "leaf":
        return True
    if p[0] == "bin":
        _, op, l, r = p
        if not (admissible(l) and admissible(r)):
            return False
        if not (is_op(l) or is_op(r)):
            return False
        a, b = size_of(l), size_of(r)
        if a and b and a != b:
            return False
        if a == 0 and b == 0:
            return False  # scalar-only programs are not vector expressions
        return True
    _, name, c = p
    if not admissible(c) or not is_op(c):
        return False
    if name in ("S@", "R@"):
        return size_of(c) == 6
    if name in ("prev_t", "prev_i"):
        return _has_var(c)
    return size_of(c) > 0


def _has_var(p):
    if p[0] == "leaf":
        return p[1] in ("X", "X2", "L")
    return any(_has_var(c) for c in p[2:] if isinstance(c, tuple))


def depth1():
    leaves = [("leaf", k) for k in LEAVES]
    out = []
    for op in OPS:
        for l, r in itertools.product(leaves, leaves):
            p = ("bin", op, l, r)
            if admissible(p):
                out.append(p)
    for u in UNARY:
        for l in leaves:
            p = ("un", u, l)
            if admissible(p):
                out.append(p)
    return out


def depth2(rnd, count):
    d1 = depth1()
    leaves = [("leaf", k) for k in LEAVES]
    out = []
    seen = set()
    tries = 0
    while len(out) < count and tries < 50 * count:
        tries += 1
        c = rnd.choice(d1)
        form = rnd.randrange(4)
        if form == 0:
            p = ("bin", rnd.choice(OPS), c, rnd.choice(leaves))
        elif form == 1:
            p = ("bin", rnd.choice(OPS), rnd.choice(leaves), c)
        elif form == 2:
            p = ("un", rnd.choice(UNARY), c)
        else:
            p = ("bin", rnd.choice(OPS), c, rnd.choice(d1))
        if repr(p) in seen or not admissible(p):
            continue
        seen.add(repr(p))
        out.append(p)
    return out


def all_depth2():
    d1 = depth1()
    leaves = [("leaf", k) for k in LEAVES]
    for c in d1:
        for op in OPS:
            for l in leaves:
                for p in (("bin", op, c, l), ("bin", op, l, c)):
                    if admissible(p):
                        yield p
        for u in UNARY:
            p = ("un", u, c)
            if admissible(p):
                yield p


def to_list(p):
    return [to_list(x) if isinstance(x, tuple) else x for x in p]


def to_tuple(p):
    return tuple(to_tuple(x) if isinstance(x, list) else x for x in p)


# ---------------------------------------------------------------- building / reference

_DC6 = np.array([1.5, 0.75, 1.25, 2.0, 0.5, 1.0])
_A6 = np.array([0.5, 1.5, 1.0, 2.0, 0.75, 1.25])
_A4 = np.array([1.5, 0.5, 2.0, 1.0])
_SCAL = 2.5


def build(p, data, shift=(0, 0)):
    """Real pp.ad operator (or raw Python/numpy operand) for descriptor p."""
    import porepy as pp

    e = _env()
    if p[0] == "leaf":
        k = p[1]
        if k == "X":
            return e["x"]
        if k == "Xp":
            return e["x"].previous_timestep()
        if k == "Xi":
            return e["x"].previous_iteration()
        if k == "X2":
            return e["x2"]
        if k == "L":
            return e["lam"]
        if k == "Lp":
            return e["lam"].previous_timestep()
        if k == "D6":
            return pp.ad.DenseArray(data["d6"])
        if k == "Dc6":
            return pp.ad.DenseArray(_DC6.copy())
        if k == "D4":
            return pp.ad.DenseArray(data["d4"])
        if k == "S":
            return pp.ad.Scalar(_SCAL)
        if k == "f":
            return 2.0
        if k == "i":
            return 3
        if k == "a6":
            return _A6.copy()
        if k == "a4":
            return _A4.copy()
        if k == "sa6":
            return data["sa6"]
        raise ValueError(k)
    if p[0] == "bin":
        l, r = build(p[2], data), build(p[3], data)
        return _binop(p[1], l, r)
    name, c = p[1], build(p[2], data)
    if name == "exp":
        return pp.ad.Function(pp.ad.functions.exp, "exp")(c)
    if name == "neg":
        return -c
    if name == "prev_t":
        return c.previous_timestep()
    if name == "prev_i":
        return c.previous_iteration()
    if name == "S@":
        return pp.ad.SparseArray(data["S"]) @ c
    if name == "R@":
        proj = pp.ad.SubdomainProjections(e["sds"])
        return proj.cell_restriction([e["x2"].domain]) @ c
    raise ValueError(name)


def _binop(op, l, r):
    if op == "+":
        return l + r
    if op == "-":
        return l - r
    if op == "*":
        return l * r
    if op == "/":
        return l / r
    return l ** r


def ref_eval(p, vals, t=0, it=0, hooks=None):
    """Reference semantics on plain value arrays.  vals: dict of value arrays:
    x[t][it]-style lookups: vals['x'][(t, it)] etc."""
    e = _env()
    if p[0] == "leaf":
        k = p[1]
        if k in ("X", "Xp", "Xi"):
            tt, ii = t + (k == "Xp"), it + (k == "Xi")
            return vals["state"][(tt, ii)][e["dx"]]
        if k == "X2":
            return vals["state"][(t, it)][e["dx2"]]
        if k in ("L", "Lp"):
            return vals["state"][(t + (k == "Lp"), it)][e["dl"]]
        if k == "D6":
            return vals["d6"]
        if k == "Dc6":
            return _DC6
        if k == "D4":
            return vals["d4"]
        if k == "S":
            return _SCAL
        if k == "f":
            return 2.0
        if k == "i":
            return 3
        if k == "a6":
            return _A6
        if k == "a4":
            return _A4
        if k == "sa6":
            return vals["sa6"]
        raise ValueError(k)
    if p[0] == "bin":
        l = ref_eval(p[2], vals, t, it, hooks)
        r = ref_eval(p[3], vals, t, it, hooks)
        if hooks is not None:
            if p[1] == "/":
                hooks["div"].append(r)
            if p[1] == "**":
                hooks["base"].append(l)
        return _binop(p[1], l, r)
    name = p[1]
    if name == "prev_t":
        return ref_eval(p[2], vals, t + 1, it, hooks)
    if name == "prev_i":
        return ref_eval(p[2], vals, t, it + 1, hooks)
    c = ref_eval(p[2], vals, t, it, hooks)
    if name == "exp":
        return np.exp(c)
    if name == "neg":
        return -c
    if name == "S@":
        return vals["S"] @ c
    if name == "R@":
        nfrac = len(e["dx"]) - len(e["dx2"])
        return c[nfrac:]  # x is ordered fracture-first; the restriction keeps the matrix cells
    raise ValueError(name)


def _shift_depth(p, t=0, it=0):
    """max (time, iterate) shift reached by the program (needs stored values)."""
    if p[0] == "leaf":
        return (t + (p[1] in ("Xp", "Lp")), it + (p[1] == "Xi"))
    if p[0] == "un" and p[1] == "prev_t":
        return _shift_depth(p[2], t + 1, it)
    if p[0] == "un" and p[1] == "prev_i":
        return _shift_depth(p[2], t, it + 1)
    ds = [_shift_depth(c, t, it) for c in p[2:] if isinstance(c, tuple)]
    return (max(d[0] for d in ds), max(d[1] for d in ds))


def _mixed_shift(p, t=0, it=0):
    """porepy forbids mixing time and iterate shifts on one variable instance."""
    if p[0] == "leaf":
        tt, ii = t + (p[1] in ("Xp", "Lp")), it + (p[1] == "Xi")
        return tt > 0 and ii > 0
    if p[0] == "un" and p[1] == "prev_t":
        return _mixed_shift(p[2], t + 1, it)
    if p[0] == "un" and p[1] == "prev_i":
        return _mixed_shift(p[2], t, it + 1)
    return any(_mixed_shift(c, t, it) for c in p[2:] if isinstance(c, tuple))


# ---------------------------------------------------------------- shards


def shards(tier, seed):
    d1 = depth1()
    rnd = random.Random(1000 + seed)
    if tier == "quick":
        progs = list(d1) + depth2(rnd, 120)
        k = 8
    else:
        progs = list(d1) + list(all_depth2())
        rnd.shuffle(progs)
        progs = progs[:6000]
        k = 32
    # always: shifts applied to composites that already contain shifted leaves (shifts accumulate)
    L = lambda k: ("leaf", k)  # noqa: E731
    progs = list(progs) + [
        ("un", "prev_t", ("bin", "*", L("X"), L("Xp"))),
        ("un", "prev_t", ("bin", "+", L("Xp"), L("D6"))),
        ("un", "prev_t", ("bin", "-", ("bin", "*", L("X"), L("Xp")), L("a6"))),
        ("un", "prev_t", ("un", "prev_t", ("bin", "*", L("X"), L("D6")))),
        ("un", "prev_t", ("bin", "*", L("L"), L("Lp"))),
        ("un", "prev_i", ("bin", "*", L("X"), L("Xi"))),
        ("un", "prev_i", ("un", "prev_i", ("bin", "+", L("X"), L("D6")))),
        ("bin", "-", ("un", "prev_t", ("bin", "*", L("X"), L("Xp"))), ("bin", "*", L("X"), L("Xp"))),
    ]
    progs = [to_list(p) for p in progs if not _mixed_shift(p) and not _rounded_uf_argument(p)]
    return [{"progs": progs[i::k]} for i in range(k)]


_CONCRETE_LEAVES = {"Dc6", "a6", "a4", "f", "i", "S"}


def _is_concrete(p):
    if p[0] == "leaf":
        return p[1] in _CONCRETE_LEAVES
    if p[0] == "bin":
        return _is_concrete(p[2]) and _is_concrete(p[3])
    return _is_concrete(p[2])


def _has_concrete_division(p):
    if p[0] == "leaf":
        return False
    if p[0] == "bin":
        if p[1] == "/" and _is_concrete(p[3]):
            return True
        return _has_concrete_division(p[2]) or _has_concrete_division(p[3])
    return _has_concrete_division(p[2])


def _rounded_uf_argument(p):
    """A division by a concrete array is carried out by the library as a multiplication with the
    float reciprocal (one rounding); as an ARGUMENT of an uninterpreted elementary function (exp,
    power) the 1e-17 difference cannot be absorbed by the tolerance stage, so such programs are
    outside the claim."""
    if p[0] == "leaf":
        return False
    if p[0] == "bin":
        if p[1] == "**" and (_has_concrete_division(p[2]) or _has_concrete_division(p[3])):
            return True
        return _rounded_uf_argument(p[2]) or _rounded_uf_argument(p[3])
    if p[1] == "exp" and _has_concrete_division(p[2]):
        return True
    return _rounded_uf_argument(p[2])


def configure(cfg, tier):
    cfg.incremental_first = False
    cfg.sample_cex = True
    cfg.query_timeout_ms = 10000 if tier == "quick" else 30000


NT, NI = 3, 3  # stored time-step / iterate levels


def _set_state(es, n, states):
    """states[(t, it)] -> array; (0,0) is the current iterate."""
    for ti in range(1, NT):
        es.set_variable_values(states[(ti, 0)], time_step_index=ti - 1)
    # previous_iteration(k) reads iterate storage index k-1; the current state is passed
    # explicitly to evaluate(state=...) and deliberately differs from the stored iterate 0
    for ii in range(1, NI):
        es.set_variable_values(states[(0, ii)], iterate_index=ii - 1)


def harness(ctx, prog):
    e = _env()
    p = to_tuple(prog)
    es, n = e["es"], e["n"]
    states = {}
    states[(0, 0)] = ctx.reals("x", n, 0.5, 2)
    for ti in range(1, NT):
        states[(ti, 0)] = ctx.reals(f"xt{ti}", n, 0.5, 2)
    for ii in range(1, NI):
        states[(0, ii)] = ctx.reals(f"xi{ii}", n, 0.5, 2)
    data = {"d6": ctx.reals("d6", 6, 0.5, 2), "d4": ctx.reals("d4", 4, 0.5, 2),
            "sa6": ctx.reals("sa", 6, 0.5, 2)}
    Sd = np.empty((3, 6), dtype=object)
    for i in range(3):
        for j in range(6):
            Sd[i, j] = ctx.real(f"S_{i}_{j}", -2, 2) if (i + j) % 2 == 0 else 0
    data["S"] = SymSparse(Sd, "csr")
    for cst in (0.5, 0.75, 1.25, 1.5, 2.0, 2.5, 3.0):  # ground instances for concrete bases
        ctx.assume(UF["log"](rv(cst)) == rv(math.log(cst)))
    vals = dict(data, state=states)
    hooks = {"div": [], "base": []}
    ref = ref_eval(p, vals, hooks=hooks)
    for d in hooks["div"]:
        for x in np.atleast_1d(np.asarray(d, dtype=object)).tolist():
            if isinstance(x, SReal):
                ctx.assume(z3.Or(lift(x) >= rv(0.0625), lift(x) <= rv(-0.0625)))
            elif x == 0:
                return "skipped"
    for b in hooks["base"]:
        for x in np.atleast_1d(np.asarray(b, dtype=object)).tolist():
            if isinstance(x, SReal):
                ctx.assume(lift(x) >= rv(0.0625))
                c = z3.simplify(lift(x))
                if z3.is_rational_value(c) and c.as_fraction() > 0:
                    # concrete base produced by arithmetic on constants: ground instance of log
                    cf = float(c.as_fraction())
                    ctx.assume(UF["log"](c) == rv(math.log(cf)))
            elif x <= 0:
                return "skipped"
            else:
                ctx.assume(UF["log"](rv(float(x))) == rv(math.log(float(x))))
    if ctx.reach("domain", required=False) is None:
        ctx.rep.extra["programs_with_empty_domain"] = ctx.rep.extra.get("programs_with_empty_domain", 0) + 1
        return "skipped"
    _set_state(es, n, states)
    inputs = {"prog": prog, "states": {f"{k[0]},{k[1]}": v for k, v in states.items()},
              "d6": data["d6"], "d4": data["d4"], "sa6": data["sa6"], "S": data["S"].A_}

    def case(conc):
        c = conc(inputs)
        return _jsonable(c)

    op = build(p, data)
    try:
        res = es.evaluate(op, derivative=True, state=states[(0, 0)])
        res_v = es.evaluate(op, derivative=False, state=states[(0, 0)])
    except Exception as exc:  # noqa: BLE001  (type-admissible programs must evaluate)
        ctx.check(f"evaluates[{_shape_class(p)}]", False,
                  lambda conc: dict(case(conc), expect_error=f"{type(exc).__name__}: {str(exc)[:200]}"))
        return "raised"
    ctx.check(f"evaluates[{_shape_class(p)}]", True, case)
    ref = np.atleast_1d(np.asarray(ref, dtype=object))
    oval = np.atleast_1d(np.asarray(res.val, dtype=object))
    ovv = np.atleast_1d(np.asarray(res_v, dtype=object))
    ojac = dense(res.jac)
    okshape = oval.shape == ref.shape and ovv.shape == ref.shape and ojac.shape == (ref.size, n)
    ctx.check("shape", bool(okshape), case)
    if not okshape:
        return "shape"
    xs = [lift(v) for v in states[(0, 0)].tolist()]
    for i in range(ref.size):
        re = lift(ref[i])
        ctx.check_close("value", oval[i], re, case)
        ctx.check_close("value(no-derivative)", ovv[i], re, case)
        for j in range(n):
            ctx.check_close("jacobian", ojac[i, j], zdiff(re, xs[j], ctx), case)
    m = ctx.reach("end")
    if m is not None:
        ctx.validate("run", {"val": oval, "jac": ojac}, case, model=m, true_functions=True,
                     rtol=1e-6, atol=1e-8)
    ctx.sample({"program": show(p), "val0": str(oval[0])[:100]})
    ctx.rep.extra["programs_checked"] = ctx.rep.extra.get("programs_checked", 0) + 1
    return "ok"


def _shape_class(p):
    return p[0] + ":" + str(p[1])


def show(p):
    if p[0] == "leaf":
        return p[1]
    if p[0] == "bin":
        return f"({show(p[2])} {p[1]} {show(p[3])})"
    return f"{p[1]}({show(p[2])})"


def _jsonable(c):
    if isinstance(c, dict):
        return {k: _jsonable(v) for k, v in c.items()}
    if isinstance(c, np.ndarray):
        return c.tolist()
    if isinstance(c, (list, tuple)):
        return [_jsonable(v) for v in c]
    return c


def run_shard(ex, shard):
    _env()
    for prog in shard["progs"]:
        ex.run(harness, label=show(to_tuple(prog)), args=(prog,))


# ---------------------------------------------------------------- real-code side


def _real_setup(case):
    e = _env()
    states = {tuple(int(t) for t in k.split(",")): np.array(v, dtype=float)
              for k, v in case["states"].items()}
    data = {"d6": np.array(case["d6"], dtype=float), "d4": np.array(case["d4"], dtype=float),
            "sa6": np.array(case["sa6"], dtype=float),
            "S": sps.csr_matrix(np.array(case["S"], dtype=float).reshape(3, 6))}
    _set_state(e["es"], e["n"], states)
    return e, states, data


def concrete_run(case):
    e, states, data = _real_setup(case)
    op = build(to_tuple(case["prog"]), data)
    res = e["es"].evaluate(op, derivative=True, state=states[(0, 0)])
    return {"val": np.atleast_1d(res.val), "jac": res.jac.toarray()}


def replay_case(case):
    e, states, data = _real_setup(case)
    p = to_tuple(case["prog"])
    try:
        op = build(p, data)
        res = e["es"].evaluate(op, derivative=True, state=states[(0, 0)])
        res_v = e["es"].evaluate(op, derivative=False, state=states[(0, 0)])
    except Exception as exc:  # noqa: BLE001
        return True, f"type-admissible program {show(p)} does not evaluate: {type(exc).__name__}: {str(exc)[:200]}"
    if "expect_error" in case:
        return False, "program evaluates on the real code"

    def f(x0):
        st = dict(states)
        st[(0, 0)] = x0
        return np.atleast_1d(np.asarray(ref_eval(p, dict(data, state=st)), dtype=float))

    x0 = states[(0, 0)]
    rv_ = f(x0)
    h = 1e-6
    rj = np.zeros((rv_.size, x0.size))
    for k in range(x0.size):
        xp, xm = x0.copy(), x0.copy()
        xp[k] += h
        xm[k] -= h
        rj[:, k] = (f(xp) - f(xm)) / (2 * h)
    gv = np.atleast_1d(np.asarray(res.val, dtype=float))
    gvv = np.atleast_1d(np.asarray(res_v, dtype=float))
    gj = res.jac.toarray()
    if gv.shape != rv_.shape or gj.shape != rj.shape or gvv.shape != rv_.shape:
        return True, f"{show(p)}: shape mismatch {gv.shape}/{gvv.shape}/{gj.shape} vs {rv_.shape}/{rj.shape}"
    if not (np.all(np.isfinite(rv_)) and np.all(np.isfinite(rj))):
        return False, "reference not finite"
    if np.abs(gv - rv_).max() > 1e-6 * (1 + np.abs(rv_).max()):
        return True, f"{show(p)}: value {gv.tolist()} != reference {rv_.tolist()}"
    if np.abs(gvv - rv_).max() > 1e-6 * (1 + np.abs(rv_).max()):
        return True, f"{show(p)}: value without derivative {gvv.tolist()} != reference {rv_.tolist()}"
    if np.abs(gj - rj).max() > 1e-4 * (1 + np.abs(rj).max()):
        return True, f"{show(p)}: jacobian differs from finite differences of the reference (max {np.abs(gj - rj).max()})"
    return False, "matches"
