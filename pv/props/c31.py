"""C31 — geometric predicates and point orderings agree with exact oracles."""
from __future__ import annotations

import fractions
import itertools
import random

import numpy as np
import z3

from ..arr import SymArr
from ..sym import SInt, SReal, lift, rv

PID = "C31"
TARGET_PREFIXES = ("geometry/geometry_property_checks", "geometry/half_space", "geometry/sort_points")

F = fractions.Fraction

META = {
    "explanation": "geometry_property_checks.point_in_polygon (convex and non-convex integer polygons, both orientations, "
                   "SYMBOLIC REAL test points, one and two points per call), is_ccw_polyline and is_ccw_polygon (symbolic "
                   "vertices), half_space.point_inside_half_space_intersection (concrete normals, symbolic offsets and "
                   "points) and sort_points.sort_point_pairs (symbolic node labels) executed symbolically; the results "
                   "are compared with independent exact oracles (crossing number, orientation determinants, "
                   "linear inequalities, chain validity)",
    "assumptions": ["floats as exact reals", "point_in_polygon: test points anywhere in [-1, 5]^2 (polygons in [0, 4]^2); points "
                    "on the boundary must give the `default` value", "is_ccw_polyline: coordinates in [-4, 4], tol in {0, 1/8}",
                    "is_ccw_polygon: convex quadrilaterals / pentagons with symbolic vertices (all fan triangles of one orientation, "
                    "area >= 1/16 each)", "points_are_collinear: 3 symbolic points, or 4 points of which the first two are fixed, in the plane z = 0, either all on the line through the first two or one "
                    "point at least 1/2 (twice the triangle area) off it", "sort_point_pairs: closed chains of 3-6 segments, arbitrary order and flips "
                    "(sampled), distinct symbolic labels"],
    "stubs": [],
    "outside": ["point_in_polyhedron / PointInPolyhedron (solid angles through arctan2: transcendental, no decision procedure)",
                "half_space_interior_point / vertexes_of_convex_domain (scipy linprog / Qhull)",
                "points_are_planar / sort_points_on_line / sort_point_plane (normalisation by square "
                "roots and arccos-based rotations: see C32 in DESIGN.md)", "point_in_cell"],
}

POLYGONS = {
    "triangle": [(0, 0), (4, 0), (1, 3)],
    "square": [(0, 0), (4, 0), (4, 4), (0, 4)],
    "pentagon": [(1, 0), (3, 0), (4, 2), (2, 4), (0, 2)],
    "L": [(0, 0), (4, 0), (4, 2), (2, 2), (2, 4), (0, 4)],
    "chevron": [(0, 0), (2, 1), (4, 0), (2, 4)],
    "hanging": [(0, 0), (2, 0), (4, 0), (4, 4), (0, 4)],
    "comb": [(0, 0), (4, 0), (4, 4), (3, 4), (3, 1), (1, 1), (1, 4), (0, 4)],
}


def shards(tier, seed):
    out = []
    names = ["triangle", "square", "L", "chevron", "hanging"] + (["pentagon", "comb"] if tier != "quick" else ["pentagon"])
    for nm in names:
        for orient in ("ccw", "cw"):
            for start in ((0,) if tier == "quick" else (0, 1)):
                for default in (False, True):
                    out.append({"kind": "pip", "poly": nm, "orient": orient, "start": start, "default": default, "npts": 1})
    out.append({"kind": "pip", "poly": "L", "orient": "ccw", "start": 0, "default": False, "npts": 2})
    out.append({"kind": "pip", "poly": "chevron", "orient": "cw", "start": 1, "default": True, "npts": 2})
    for tol in (0, F(1, 8)):
        for default in (False, True):
            out.append({"kind": "ccw-polyline", "tol": str(tol), "default": default})
    for n in (4, 5):
        for orient in ("ccw", "cw"):
            out.append({"kind": "ccw-polygon", "n": n, "orient": orient})
    for body in ("cube", "tetra"):
        out.append({"kind": "halfspace", "body": body})
    for npts in (3, 4):
        for truth in ("collinear", "off-last", "off-middle"):
            if npts == 3 and truth == "off-middle":
                continue
            out.append({"kind": "collinear", "npts": npts, "truth": truth})
    rnd = random.Random(31 + seed)
    for n in (3, 4, 5) + ((6,) if tier != "quick" else ()):
        for k in range(6 if tier == "quick" else 30):
            perm = list(range(n))
            rnd.shuffle(perm)
            flips = [rnd.random() < 0.5 for _ in range(n)]
            out.append({"kind": "chain", "n": n, "perm": perm, "flips": flips})
    k = 8 if tier == "quick" else 16
    return [{"cases": out[i::k]} for i in range(k)]


def configure(cfg, tier):
    cfg.incremental_first = True
    cfg.max_paths = 3000


def _poly(shard):
    pts = list(POLYGONS[shard["poly"]])
    if shard["orient"] == "cw":
        pts = pts[::-1]
    s = shard["start"] % len(pts)
    return pts[s:] + pts[:s]


def _cross(ax, ay, bx, by):
    return ax * by - ay * bx


def _oracle_pip(pts, px, py):
    """(inside, on_boundary) as z3 Bool terms: crossing number with the half-open rule."""
    crossings = []
    onb = []
    n = len(pts)
    for i in range(n):
        (ax, ay), (bx, by) = pts[i], pts[(i + 1) % n]
        if ay != by:
            xs = rv(ax) + (py - rv(ay)) * rv(F(bx - ax, by - ay))
            crossings.append(z3.If(z3.And((rv(ay) > py) != (rv(by) > py), px < xs), 1, 0))
        cr = _cross(rv(bx - ax), rv(by - ay), px - rv(ax), py - rv(ay))
        onb.append(z3.And(cr == 0, px >= min(ax, bx), px <= max(ax, bx), py >= min(ay, by), py <= max(ay, by)))
    inside = (z3.Sum(crossings) % 2 == 1) if crossings else z3.BoolVal(False)
    return inside, z3.Or(onb)


def h_pip(ctx, c):
    import porepy as pp

    pts = _poly(c)
    npts = c["npts"]
    P = [[ctx.real(f"p{j}x", -1, 5), ctx.real(f"p{j}y", -1, 5)] for j in range(npts)]
    inputs = {"case": c, "P": P}

    def case(conc):
        cc = conc(inputs)
        return {"case": c, "P": [[float(v) for v in p] for p in cc["P"]]}

    poly = np.array(pts, dtype=float).T
    p = np.empty((2, npts), dtype=object)
    for j in range(npts):
        p[0, j], p[1, j] = P[j]
    arg = p.view(SymArr) if npts > 1 else p[:, 0].view(SymArr)
    res = pp.geometry_property_checks.point_in_polygon(poly, arg, default=c["default"])
    res = np.asarray(res).ravel()
    ctx.check("result-shape", res.shape == (npts,), case)
    for j in range(npts):
        inside, onb = _oracle_pip(pts, lift(P[j][0]), lift(P[j][1]))
        r = res[j]
        rb = r.e if hasattr(r, "e") else z3.BoolVal(bool(r))
        ctx.check("interior-and-exterior-points-classified-exactly", z3.Implies(z3.Not(onb), rb == inside), case)
        ctx.check("boundary-points-get-the-default", z3.Implies(onb, rb == z3.BoolVal(bool(c["default"]))), case)
    m = ctx.reach("end")
    if m is not None and ctx.rep.paths % 4 == 0:
        ctx.validate_replay("float-run", case, model=m)
    if ctx.rep.paths % 50 == 0:
        ctx.sample({"case": c, "path": ctx.idx})


def h_ccw_polyline(ctx, c):
    import porepy as pp

    tol = F(c["tol"])
    v = [ctx.real(n, -4, 4) for n in ("ax", "ay", "bx", "by", "cx", "cy", "dx", "dy")]
    inputs = {"case": c, "v": v}

    def case(conc):
        cc = conc(inputs)
        return {"case": c, "v": [float(x) for x in cc["v"]]}

    def arr(*xs):
        a = np.empty(len(xs), dtype=object)
        for i, x in enumerate(xs):
            a[i] = x
        return a.view(SymArr)

    p3 = np.empty((2, 2), dtype=object)
    p3[0, 0], p3[1, 0], p3[0, 1], p3[1, 1] = v[4], v[5], v[6], v[7]
    res = pp.geometry_property_checks.is_ccw_polyline(arr(v[0], v[1]), arr(v[2], v[3]), p3.view(SymArr),
                                                      tol=float(tol), default=c["default"])
    res = np.asarray(res).ravel()
    ctx.check("result-shape", res.shape == (2,), case)
    for j, (cx, cy) in enumerate(((v[4], v[5]), (v[6], v[7]))):
        det = _cross(lift(v[2]) - lift(v[0]), lift(v[3]) - lift(v[1]), lift(cx) - lift(v[0]), lift(cy) - lift(v[1]))
        r = res[j]
        rb = r.e if hasattr(r, "e") else z3.BoolVal(bool(r))
        ctx.check("ccw-iff-orientation-determinant-above-tol",
                  z3.And(z3.Implies(det > rv(tol), rb), z3.Implies(det < -rv(tol), z3.Not(rb)),
                         z3.Implies(z3.And(det <= rv(tol), det >= -rv(tol)), rb == z3.BoolVal(bool(c["default"])))), case)
    m = ctx.reach("end")
    if m is not None:
        ctx.validate_replay("float-run", case, model=m)
    if ctx.idx == 0:
        ctx.sample({"case": c})


def h_ccw_polygon(ctx, c):
    import porepy as pp

    n = c["n"]
    V = [[ctx.real(f"x{i}", -4, 4), ctx.real(f"y{i}", -4, 4)] for i in range(n)]
    sgn = 1 if c["orient"] == "ccw" else -1
    # convex with the given orientation: every vertex triple (i, i+1, j) has that orientation
    for i in range(n):
        a, b = V[i], V[(i + 1) % n]
        for j in range(n):
            if j in (i, (i + 1) % n):
                continue
            det = _cross(lift(b[0]) - lift(a[0]), lift(b[1]) - lift(a[1]), lift(V[j][0]) - lift(a[0]), lift(V[j][1]) - lift(a[1]))
            ctx.assume(sgn * det >= rv(F(1, 8)))
    inputs = {"case": c, "V": V}

    def case(conc):
        cc = conc(inputs)
        return {"case": c, "V": [[float(x) for x in p] for p in cc["V"]]}

    poly = np.empty((2, n), dtype=object)
    for i in range(n):
        poly[0, i], poly[1, i] = V[i]
    res = pp.geometry_property_checks.is_ccw_polygon(poly.view(SymArr))
    rb = res.e if hasattr(res, "e") else z3.BoolVal(bool(res))
    ctx.check("convex-polygon-orientation", rb == z3.BoolVal(sgn > 0), case)
    m = ctx.reach("end")
    if m is not None:
        ctx.validate_replay("float-run", case, model=m)
    if ctx.idx == 0:
        ctx.sample({"case": c})


_BODIES = {
    # outward normals n_i and points x0_i on the faces: inside <=> (p - x0_i) . n_i <= 0 for all i
    "cube": ([(1, 0, 0), (-1, 0, 0), (0, 1, 0), (0, -1, 0), (0, 0, 1), (0, 0, -1)],
             [(1, 0, 0), (0, 0, 0), (0, 1, 0), (0, 0, 0), (0, 0, 1), (0, 0, 0)]),
    "tetra": ([(-1, 0, 0), (0, -1, 0), (0, 0, -1), (1, 1, 1)],
              [(0, 0, 0), (0, 0, 0), (0, 0, 0), (1, 0, 0)]),
}


def h_halfspace(ctx, c):
    import porepy as pp

    normals, x0s = _BODIES[c["body"]]
    k = len(normals)
    off = [[ctx.real(f"o{i}_{d}", -1, 1) for d in range(3)] for i in range(k)]
    pts = [[ctx.real(f"q{j}_{d}", -3, 3) for d in range(3)] for j in range(2)]
    inputs = {"case": c, "off": off, "pts": pts}

    def case(conc):
        cc = conc(inputs)
        return {"case": c, "off": [[float(x) for x in p] for p in cc["off"]], "pts": [[float(x) for x in p] for p in cc["pts"]]}

    n = np.array(normals, dtype=float).T
    x0 = np.empty((3, k), dtype=object)
    for i in range(k):
        for d in range(3):
            x0[d, i] = SReal(rv(x0s[i][d])) + off[i][d]
    P = np.empty((3, 2), dtype=object)
    for j in range(2):
        for d in range(3):
            P[d, j] = pts[j][d]
    res = np.asarray(pp.half_space.point_inside_half_space_intersection(n, x0.view(SymArr), P.view(SymArr))).ravel()
    ctx.check("result-shape", res.shape == (2,), case)
    for j in range(2):
        inside = z3.And([z3.Sum([(lift(pts[j][d]) - lift(x0[d, i])) * rv(normals[i][d]) for d in range(3)]) <= 0 for i in range(k)])
        r = res[j]
        rb = r.e if hasattr(r, "e") else z3.BoolVal(bool(r))
        ctx.check("inside-iff-all-half-space-inequalities-hold", rb == inside, case)
    m = ctx.reach("end")
    if m is not None and ctx.rep.paths % 5 == 0:
        ctx.validate_replay("float-run", case, model=m)
    if ctx.idx == 0:
        ctx.sample({"case": c})


def h_chain(ctx, c):
    import porepy as pp

    n = c["n"]
    lab = [ctx.int(f"l{i}", 0, 60) for i in range(n)]
    ctx.assume(z3.Distinct(*[x.e for x in lab]))
    inputs = {"case": c, "lab": lab}

    def case(conc):
        cc = conc(inputs)
        return {"case": c, "lab": [int(x) for x in cc["lab"]]}

    # closed chain l0-l1-...-l(n-1)-l0, edges permuted and flipped
    lines = np.empty((2, n), dtype=object)
    for col, (e, fl) in enumerate(zip(c["perm"], c["flips"])):
        a, b = lab[e], lab[(e + 1) % n]
        lines[0, col], lines[1, col] = (b, a) if fl else (a, b)
    sl, ind = pp.sort_points.sort_point_pairs(lines.view(SymArr))
    sl = np.asarray(sl, dtype=object)
    ind = np.asarray(ind)
    ctx.check("sort-index-is-a-permutation", sorted(int(i) for i in ind.tolist()) == list(range(n)), case)
    ctx.check("chain-shape", sl.shape == (2, n), case)
    if sl.shape == (2, n):
        for i in range(n):
            ctx.check("consecutive-segments-share-a-point", lift(sl[1, i]) == lift(sl[0, (i + 1) % n]), case)
            j = int(ind[i])
            a, b = lines[0, j], lines[1, j]
            ctx.check("sorted-segment-is-the-indexed-input-segment",
                      z3.Or(z3.And(lift(sl[0, i]) == lift(a), lift(sl[1, i]) == lift(b)),
                            z3.And(lift(sl[0, i]) == lift(b), lift(sl[1, i]) == lift(a))), case)
    m = ctx.reach("end")
    if m is not None and ctx.rep.paths % 3 == 0:
        ctx.validate_replay("float-run", case, model=m)
    if ctx.rep.paths % 20 == 0:
        ctx.sample({"case": c})


def h_collinear(ctx, c):
    """points_are_collinear on points of the plane z = 0: either all on the line through the first two
    points, or one point (the last / a middle one) at least 1/4 off it (far outside the tolerance)."""
    import porepy as pp

    n = c["npts"]
    P = [[ctx.real(f"x{i}", -2, 2), ctx.real(f"y{i}", -2, 2)] for i in range(n)]
    if n > 3:
        # four points: the first two are fixed (keeps the number of symbolic pairwise distances down)
        P[0] = [SReal(rv(F(-1, 2))), SReal(rv(F(1, 4)))]
        P[1] = [SReal(rv(F(3, 2))), SReal(rv(F(5, 4)))]
    d01 = [lift(P[1][0]) - lift(P[0][0]), lift(P[1][1]) - lift(P[0][1])]
    ctx.assume(d01[0] * d01[0] + d01[1] * d01[1] >= rv(F(1, 4)))

    def off(i):      # twice the signed area of (p0, p1, pi)
        return d01[0] * (lift(P[i][1]) - lift(P[0][1])) - d01[1] * (lift(P[i][0]) - lift(P[0][0]))

    bad = {"collinear": None, "off-last": n - 1, "off-middle": 2}[c["truth"]]
    for i in range(2, n):
        if i == bad:
            ctx.assume(z3.Or(off(i) >= rv(F(1, 2)), off(i) <= -rv(F(1, 2))))
        else:
            ctx.assume(off(i) == 0)
    inputs = {"case": c, "P": P}

    def case(conc):
        cc = conc(inputs)
        return {"case": c, "P": [[float(v) for v in p] for p in cc["P"]]}

    pts = np.empty((3, n), dtype=object)
    for i in range(n):
        pts[0, i], pts[1, i], pts[2, i] = P[i][0], P[i][1], SReal(rv(0))
    res = pp.geometry_property_checks.points_are_collinear(pts.view(SymArr))
    rb = res.e if hasattr(res, "e") else z3.BoolVal(bool(res))
    ctx.check("collinear-iff-all-points-on-the-line", rb == z3.BoolVal(bad is None), case)
    m = ctx.reach("end")
    if m is not None:
        ctx.validate_replay("float-run", case, model=m)
    if ctx.idx == 0:
        ctx.sample({"case": c})


_H = {"collinear": h_collinear, "pip": h_pip, "ccw-polyline": h_ccw_polyline, "ccw-polygon": h_ccw_polygon, "halfspace": h_halfspace, "chain": h_chain}


def run_shard(ex, shard):
    for c in shard["cases"]:
        nonlinear = c["kind"] == "collinear"       # square roots / quotients: fresh solvers and interval pruning
        ex.cfg.fresh_branches = nonlinear
        ex.cfg.interval_first = nonlinear
        ex.cfg.simplify_div = nonlinear
        ex.cfg.slice_first = nonlinear
        ex.cfg.incremental_first = not nonlinear
        ex.run(_H[c["kind"]], label=str(c), args=(c,))


# ---------------------------------------------------------------- real-code side


def concrete_run(case):
    raise NotImplementedError


def _pip_exact(pts, px, py):
    px, py = F(px), F(py)
    n = len(pts)
    cnt = 0
    for i in range(n):
        (ax, ay), (bx, by) = pts[i], pts[(i + 1) % n]
        cr = (bx - ax) * (py - ay) - (by - ay) * (px - ax)
        if cr == 0 and min(ax, bx) <= px <= max(ax, bx) and min(ay, by) <= py <= max(ay, by):
            return None
        if (ay > py) != (by > py):
            xs = ax + (py - ay) * F(bx - ax, by - ay)
            if px < xs:
                cnt += 1
    return cnt % 2 == 1


def replay_case(case):
    import porepy as pp

    c = case["case"]
    kind = c["kind"]
    if kind == "pip":
        pts = _poly(c)
        P = np.array(case["P"], dtype=float).T
        res = pp.geometry_property_checks.point_in_polygon(np.array(pts, dtype=float).T, P if c["npts"] > 1 else P[:, 0],
                                                           default=c["default"])
        bad = []
        for j in range(c["npts"]):
            ex = _pip_exact(pts, case["P"][j][0], case["P"][j][1])
            want = c["default"] if ex is None else ex
            if bool(res[j]) != bool(want):
                bad.append(f"point {case['P'][j]}: code {bool(res[j])}, exact {'boundary -> default ' + str(c['default']) if ex is None else ex}")
        if bad:
            return True, f"polygon {pts} (default={c['default']}): {bad}"
        return False, "agrees"
    if kind == "ccw-polyline":
        v = case["v"]
        tol = float(F(c["tol"]))
        res = pp.geometry_property_checks.is_ccw_polyline(np.array(v[0:2]), np.array(v[2:4]), np.array([[v[4], v[6]], [v[5], v[7]]]),
                                                          tol=tol, default=c["default"])
        bad = []
        for j, (cx, cy) in enumerate(((v[4], v[5]), (v[6], v[7]))):
            det = (F(v[2]) - F(v[0])) * (F(cy) - F(v[1])) - (F(v[3]) - F(v[1])) * (F(cx) - F(v[0]))
            want = True if det > F(c["tol"]) else (False if det < -F(c["tol"]) else c["default"])
            if min(abs(det - F(c["tol"])), abs(det + F(c["tol"]))) < F(1, 10 ** 9):
                continue        # within rounding of the decision boundary: the float run is not a reference
            if bool(res[j]) != want:
                bad.append(f"p3={cx, cy}: code {bool(res[j])}, exact {want} (det {float(det)})")
        if bad:
            return True, f"is_ccw_polyline p1={v[0:2]} p2={v[2:4]} tol={tol}: {bad}"
        return False, "agrees"
    if kind == "ccw-polygon":
        V = np.array(case["V"], dtype=float).T
        res = bool(pp.geometry_property_checks.is_ccw_polygon(V))
        if res != (c["orient"] == "ccw"):
            return True, f"is_ccw_polygon({V.tolist()}) = {res} for a convex {c['orient']} polygon"
        return False, "agrees"
    if kind == "halfspace":
        normals, x0s = _BODIES[c["body"]]
        n = np.array(normals, dtype=float).T
        x0 = np.array(x0s, dtype=float).T + np.array(case["off"], dtype=float).T
        P = np.array(case["pts"], dtype=float).T
        res = pp.half_space.point_inside_half_space_intersection(n, x0, P)
        bad = []
        for j in range(2):
            want = all(sum((F(case["pts"][j][d]) - (F(x0s[i][d]) + F(case["off"][i][d]))) * normals[i][d] for d in range(3)) <= 0
                       for i in range(len(normals)))
            if bool(res[j]) != want:
                bad.append(f"point {case['pts'][j]}: code {bool(res[j])}, exact {want}")
        if bad:
            return True, f"half spaces {c['body']} offsets {case['off']}: {bad}"
        return False, "agrees"
    if kind == "collinear":
        P = np.array(case["P"], dtype=float).T
        pts = np.vstack([P, np.zeros(P.shape[1])])
        res = bool(pp.geometry_property_checks.points_are_collinear(pts))
        d = P[:, 1] - P[:, 0]
        offs = [abs(d[0] * (P[1, i] - P[1, 0]) - d[1] * (P[0, i] - P[0, 0])) for i in range(2, P.shape[1])]
        want = max(offs) < 1e-9
        if max(offs) > 1e-9 and max(offs) < 0.25:
            return False, "inside the separation band"
        if res != want:
            return True, f"points_are_collinear({P.T.tolist()}) = {res}, but the largest offset (twice the area with p0, p1) is {max(offs)}"
        return False, "agrees"
    if kind == "chain":
        n = c["n"]
        lab = case["lab"]
        lines = np.zeros((2, n), dtype=int)
        for col, (e, fl) in enumerate(zip(c["perm"], c["flips"])):
            a, b = lab[e], lab[(e + 1) % n]
            lines[:, col] = (b, a) if fl else (a, b)
        try:
            sl, ind = pp.sort_points.sort_point_pairs(lines)
        except Exception as e:  # noqa: BLE001
            return True, f"sort_point_pairs({lines.tolist()}) raised {type(e).__name__}: {e}"
        ok = sorted(ind.tolist()) == list(range(n)) and all(sl[1, i] == sl[0, (i + 1) % n] for i in range(n)) and all(
            sorted(sl[:, i].tolist()) == sorted(lines[:, ind[i]].tolist()) for i in range(n))
        if not ok:
            return True, f"sort_point_pairs({lines.tolist()}) -> {sl.tolist()}, {ind.tolist()} is not a valid chain"
        return False, "valid chain"
    raise ValueError(kind)
