"""C22 — subgrid extraction preserves the parent grid (symbolic node positions; extraction clause)."""
from __future__ import annotations

import itertools
import random

import numpy as np
import z3

from ..arr import SymArr
from ..sym import SReal, lift, rv
from .c19 import PERT, _grid

PID = "C22"
TARGET_PREFIXES = ("grids/partition", "grids/grid")

META = {
    "explanation": "partition.extract_subgrid (_extract_submatrix) executed on Cartesian and structured-triangle grids in "
                   "which 1-2 nodes are displaced by symbolic amounts, for enumerated cell subsets (connected or not, "
                   "sorted or not); the geometry of the extracted grid is RECOMPUTED by the real compute_geometry on the "
                   "symbolic nodes and compared, for all displacements, with the parent's geometry on the mapped cells / "
                   "faces; the face and node index maps are compared with the parent topology",
    "assumptions": ["floats as exact reals", f"2x2 Cartesian / 2x2 structured triangle grid, 1-2 nodes displaced by symbolic "
                    f"(dx, dy) in [-{PERT}, {PERT}]^2; a 2x1x1 Cartesian grid with 1-2 nodes displaced in x, y", "cell subsets: all subsets of the 4 Cartesian cells, sampled subsets "
                    "of the 8 triangles; cell lists in ascending and in arbitrary order, each with `sort` True and False"],
    "stubs": ["np.sqrt(x): |t| when x is syntactically t*t, otherwise fresh r >= 0 with r*r == x"],
    "outside": ["extraction from faces (faces=True: lower-dimensional grids embedded in the plane)",
                "partition_coordinates / partition_metis / overlap / grid_is_connected: their inputs and outputs are "
                "concrete integer arrays (nothing for a solver to decide); partition_structured is covered by plain "
                "ENUMERATION of fine / coarse dimensions (2-d up to 7x5, four 3-d cases), reported as such",
                "3-d grids other than two hexahedra with 1-2 nodes displaced in x, y"],
}


def shards(tier, seed):
    rnd = random.Random(22 + seed)
    out = []
    for kind, nc, nn in (("cart", 4, 9), ("tri", 8, 9)):
        subsets = []
        for r in range(1, nc + 1):
            subsets += [list(c) for c in itertools.combinations(range(nc), r)]
        rnd.shuffle(subsets)
        subsets = subsets[: (10 if tier == "quick" else 60)]
        nodesets = [[4], [0], [4, 5], [1, 3]] if tier != "quick" else [[4], [0, 4]]
        for cs in subsets:
            for ns in nodesets:
                order = list(cs)
                sort = rnd.random() < 0.6
                if len(cs) > 1 and rnd.random() < 0.6:
                    rnd.shuffle(order)          # unsorted input, with sort=True as well as sort=False
                out.append({"kind": kind, "cells": order, "sort": sort, "nodes": ns})
    # a small 3-d grid (two hexahedra, node order within the faces matters for the recomputed geometry)
    cases3d = []
    for cs, srt in (([0], True), ([1], True), ([0, 1], True), ([1, 0], True), ([1, 0], False)):
        for ns in ([4], [0, 7]):
            cases3d.append({"kind": "cart3d", "cells": cs, "sort": srt, "nodes": ns})
    # partitioners: concrete enumeration (no symbolic input exists for them), kept here because the
    # property names them; every cell must get exactly one part index within range
    dims2 = [(nx, ny) for nx in range(2, 8) for ny in range(2, 6)]
    for fd in dims2:
        for cd in [(cx, cy) for cx in range(1, fd[0] + 1) for cy in range(1, fd[1] + 1)]:
            if tier != "quick" or (fd[0] * 7 + fd[1] * 3 + cd[0] * 5 + cd[1]) % 4 == 0:
                out.append({"kind": "partition", "fine": list(fd), "coarse": list(cd)})
    for fd, cd in (((5, 4, 7), (2, 3, 3)), ((3, 3, 3), (2, 2, 2)), ((4, 5, 3), (3, 2, 2)), ((6, 2, 5), (4, 1, 2))):
        out.append({"kind": "partition", "fine": list(fd), "coarse": list(cd)})
    k = 8 if tier == "quick" else 16
    return [{"cases": out[i::k]} for i in range(k)] + [{"cases": cases3d}]


def configure(cfg, tier):
    cfg.incremental_first = False
    cfg.slice_first = True
    cfg.simplify_div = True
    cfg.fresh_branches = True
    cfg.interval_first = True
    cfg.branch_timeout_ms = 20000
    cfg.query_timeout_ms = 60000 if tier == "quick" else 240000
    cfg.max_paths = 50


def _eqv(a, b):
    a, b = np.asarray(a, dtype=object).ravel().tolist(), np.asarray(b, dtype=object).ravel().tolist()
    if len(a) != len(b):
        return z3.BoolVal(False)
    return z3.And([lift(x) == lift(y) for x, y in zip(a, b)]) if a else z3.BoolVal(True)


def _partition_problems(c):
    import porepy as pp

    g = pp.CartGrid(c["fine"])
    part = pp.partition.partition_structured(g, coarse_dims=np.array(c["coarse"]))
    npart = int(np.prod(c["coarse"]))
    problems = []
    if np.shape(part) != (g.num_cells,):
        problems.append(f"shape {np.shape(part)}")
    elif part.min() < 0 or part.max() >= npart:
        problems.append(f"part indices {sorted(set(part.tolist()))} outside range(0, {npart})")
    elif np.unique(part).size != npart:
        problems.append(f"only {np.unique(part).size} of {npart} parts used")
    else:
        # parts are boxes: the part index factorises over the coordinate directions, monotonically
        idx = np.unravel_index(np.arange(g.num_cells), c["fine"], order="F")
        pidx = np.unravel_index(part, c["coarse"], order="F")
        for d in range(len(c["fine"])):
            m = {}
            for i, p in zip(idx[d].tolist(), pidx[d].tolist()):
                if m.setdefault(i, p) != p:
                    problems.append(f"direction {d}: fine index {i} in two coarse slabs")
                    break
            vals = [m[i] for i in sorted(m)]
            if vals != sorted(vals):
                problems.append(f"direction {d}: coarse index not monotone {vals}")
    return problems


def h_partition(ctx, c):
    case = lambda conc: {"case": c}  # noqa: E731
    probs = _partition_problems(c)
    ctx.check("partition_structured: every cell in exactly one part within range, parts are boxes", not probs, case)
    ctx.reach("end")
    if ctx.rep.paths % 40 == 0:
        ctx.sample({"case": c})


def _cyclic_order_kept(h, g, uf, un):
    fn_h, fn_p = h.face_nodes.tocsc(), g.face_nodes.tocsc()
    un = np.asarray(un)
    for f in range(h.num_faces):
        a = un[fn_h.indices[fn_h.indptr[f]:fn_h.indptr[f + 1]]].tolist()
        b = fn_p.indices[fn_p.indptr[uf[f]]:fn_p.indptr[uf[f] + 1]].tolist()
        if len(a) != len(b):
            return False
        rots = [b[i:] + b[:i] for i in range(len(b))]
        rots += [r[::-1] for r in rots]
        if a not in rots:
            return False
    return True


def harness(ctx, c):
    import porepy as pp

    if c["kind"] == "partition":
        return h_partition(ctx, c)
    g = _grid(c["kind"])
    ref = g.nodes.copy()
    N = np.empty(ref.shape, dtype=object)
    disp = []
    for i in range(ref.shape[1]):
        for d in range(3):
            N[d, i] = SReal(rv(float(ref[d, i])))
        if i in c["nodes"]:
            dv = [ctx.real(f"d{d}_{i}", -PERT, PERT) for d in range(2)]
            disp.append(dv)
            for d in range(2):
                N[d, i] = N[d, i] + dv[d]
    inputs = {"case": c, "disp": disp}

    def case(conc):
        cc = conc(inputs)
        return {"case": c, "disp": [[float(x) for x in p] for p in cc["disp"]]}

    g.nodes = N.copy().view(SymArr)
    g.compute_geometry()
    cells = np.array(c["cells"], dtype=int)
    h, uf, un = pp.partition.extract_subgrid(g, cells, sort=c["sort"])
    uf, un = np.asarray(uf), np.asarray(un)
    pc = np.sort(cells) if c["sort"] else cells
    # topology / index maps (concrete)
    cf_p, fn_p = g.cell_faces.tocsc(), g.face_nodes.tocsc()
    cf_h, fn_h = h.cell_faces.tocsc(), h.face_nodes.tocsc()
    ok = h.num_cells == len(pc) and h.num_faces == len(uf) and h.num_nodes == len(un) and h.dim == g.dim
    ctx.check("sizes", ok, case)
    if not ok:
        return
    ctx.check("parent-cell-index", np.array_equal(np.asarray(h.parent_cell_ind), pc), case)
    topo = True
    for k, cp in enumerate(pc):
        fh = cf_h.indices[cf_h.indptr[k]:cf_h.indptr[k + 1]]
        sh = cf_h.data[cf_h.indptr[k]:cf_h.indptr[k + 1]]
        fp = cf_p.indices[cf_p.indptr[cp]:cf_p.indptr[cp + 1]]
        sp = cf_p.data[cf_p.indptr[cp]:cf_p.indptr[cp + 1]]
        topo &= sorted(zip(uf[fh].tolist(), sh.tolist())) == sorted(zip(fp.tolist(), sp.tolist()))
    ctx.check("face-map-points-to-the-parent-faces-of-each-cell (with signs)", bool(topo), case)
    topo = True
    for f in range(h.num_faces):
        nh = fn_h.indices[fn_h.indptr[f]:fn_h.indptr[f + 1]]
        npar = fn_p.indices[fn_p.indptr[uf[f]]:fn_p.indptr[uf[f] + 1]]
        topo &= sorted(un[nh].tolist()) == sorted(npar.tolist())
    # (the order of the nodes within a face matters for the geometry of 3-d faces: covered by the recomputed
    # geometry of the 3-d shards, not demanded as such)
    ctx.check("node-map-points-to-the-parent-nodes-of-each-face", bool(topo), case)
    if g.dim == 3:
        cyc = _cyclic_order_kept(h, g, uf, un)
        ctx.check("3-d faces keep the cyclic order of their nodes (the polygon they describe)", cyc, case)
        if not cyc:
            ctx.reach("end")
            return
    ctx.check("node-coordinates-are-the-parent's", _eqv(h.nodes, np.asarray(g.nodes, dtype=object)[:, un]), case)
    ctx.check("faces-and-nodes-exactly-those-of-the-cells",
              sorted(set(uf.tolist())) == sorted({int(f) for cp in pc for f in cf_p.indices[cf_p.indptr[cp]:cf_p.indptr[cp + 1]]})
              and len(set(uf.tolist())) == len(uf) and len(set(un.tolist())) == len(un), case)
    # copied geometry
    ctx.check("copied-geometry-is-the-parent's", z3.And(
        _eqv(h.cell_volumes, np.asarray(g.cell_volumes, dtype=object)[pc]),
        _eqv(h.cell_centers, np.asarray(g.cell_centers, dtype=object)[:, pc]),
        _eqv(h.face_areas, np.asarray(g.face_areas, dtype=object)[uf]),
        _eqv(h.face_centers, np.asarray(g.face_centers, dtype=object)[:, uf]),
        _eqv(h.face_normals, np.asarray(g.face_normals, dtype=object)[:, uf])), case)
    # recomputed geometry
    h.compute_geometry()
    G = lambda a: np.asarray(a, dtype=object)  # noqa: E731
    for k, cp in enumerate(pc):
        ctx.check("recomputed-cell-volume", lift(G(h.cell_volumes)[k]) == lift(G(g.cell_volumes)[cp]), case)
        ctx.check("recomputed-cell-centre", _eqv(G(h.cell_centers)[:, k], G(g.cell_centers)[:, cp]), case)
    for f in range(h.num_faces):
        ctx.check("recomputed-face-area", lift(G(h.face_areas)[f]) == lift(G(g.face_areas)[uf[f]]), case)
        ctx.check("recomputed-face-centre", _eqv(G(h.face_centers)[:, f], G(g.face_centers)[:, uf[f]]), case)
        ctx.check("recomputed-face-normal", _eqv(G(h.face_normals)[:, f], G(g.face_normals)[:, uf[f]]), case)
    m = ctx.reach("end")
    if m is not None and ctx.rep.paths % 2 == 0:
        ctx.validate_replay("float-run", case, model=m)
    if ctx.rep.paths % 7 == 0:
        ctx.sample({"case": c, "path": ctx.idx})


def run_shard(ex, shard):
    for c in shard["cases"]:
        ex.run(harness, label=str(c), args=(c,))


# ---------------------------------------------------------------- real-code side


def concrete_run(case):
    raise NotImplementedError


def replay_case(case):
    import porepy as pp

    c = case["case"]
    if c["kind"] == "partition":
        probs = _partition_problems(c)
        if probs:
            return True, f"partition_structured(CartGrid({c['fine']}), coarse_dims={c['coarse']}): {probs}"
        return False, "partition"
    g = _grid(c["kind"])
    for i, dsp in zip(c["nodes"], case["disp"]):
        g.nodes[0, i] += dsp[0]
        g.nodes[1, i] += dsp[1]
    g.compute_geometry()
    cells = np.array(c["cells"], dtype=int)
    h, uf, un = pp.partition.extract_subgrid(g, cells, sort=c["sort"])
    pc = np.sort(cells) if c["sort"] else cells
    problems = []
    if not np.array_equal(h.parent_cell_ind, pc):
        problems.append("parent_cell_ind")
    if g.dim == 3 and not _cyclic_order_kept(h, g, np.asarray(uf), un):
        return True, f"{c}: the nodes of a 3-d face of the extracted grid are not in the cyclic order of the parent face"
    if not np.allclose(h.nodes, g.nodes[:, un]):
        problems.append("node coordinates")
    if not (np.allclose(h.cell_volumes, g.cell_volumes[pc]) and np.allclose(h.face_normals, g.face_normals[:, uf])):
        problems.append("copied geometry")
    h.compute_geometry()
    for name, a, b in (("cell volumes", h.cell_volumes, g.cell_volumes[pc]), ("cell centres", h.cell_centers, g.cell_centers[:, pc]),
                       ("face areas", h.face_areas, g.face_areas[uf]), ("face centres", h.face_centers, g.face_centers[:, uf]),
                       ("face normals", h.face_normals, g.face_normals[:, uf])):
        if np.shape(a) != np.shape(b) or not np.allclose(a, b, atol=1e-10):
            problems.append(f"recomputed {name} differ from the parent's")
    cf_p, cf_h = g.cell_faces.tocsc(), h.cell_faces.tocsc()
    for k, cp in enumerate(pc):
        fh = cf_h.indices[cf_h.indptr[k]:cf_h.indptr[k + 1]]
        fp = cf_p.indices[cf_p.indptr[cp]:cf_p.indptr[cp + 1]]
        if sorted(np.asarray(uf)[fh].tolist()) != sorted(fp.tolist()):
            problems.append(f"cell {k}: face map does not point to the faces of parent cell {cp}")
    if problems:
        return True, f"{c} displaced by {case['disp']}: {problems[:3]}"
    return False, "preserved"
