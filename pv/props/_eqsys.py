"""Shared environment for C06 / C07: a small equation system with symbolic coefficients.

md-grid: 2x2 matrix + 2-cell fracture + 4-cell interface.  Variables: x on both subdomains
(6 dofs), lam on the interface (4 dofs).  Equations (all nonlinear, coefficients symbolic):
  E1 on both subdomains (6 rows), E2 on the matrix grid (4 rows), E3 on the interface (4 rows).
"""
from __future__ import annotations

import numpy as np

from ..sparse import SymSparse

_ENV = {}


def mdg_env():
    if _ENV:
        return _ENV
    import porepy as pp

    mdg, _ = pp.mdg_library.square_with_orthogonal_fractures("cartesian", {"cell_size": 0.5}, fracture_indices=[1])
    _ENV.update(mdg=mdg)
    return _ENV


def reset_data(mdg):
    import porepy as pp

    for _, d in list(mdg.subdomains(return_data=True)) + list(mdg.interfaces(return_data=True)):
        d.pop(pp.TIME_STEP_SOLUTIONS, None)
        d.pop(pp.ITERATE_SOLUTIONS, None)


def coefficient_shapes():
    return {"c1": (6,), "c2": (4,), "c3": (4,), "M1": (6, 4), "M3": (4, 6)}


def build_system(coef, secondary_local=False, with_e2=True):
    """coef: dict of arrays (symbolic or float) with the shapes of coefficient_shapes()."""
    import porepy as pp
    import scipy.sparse as sps

    mdg = mdg_env()["mdg"]
    reset_data(mdg)
    es = pp.ad.EquationSystem(mdg)
    sds, intfs = mdg.subdomains(), mdg.interfaces()
    matrix = [g for g in sds if g.dim == 2]
    x = es.create_variables("x", subdomains=sds)
    lam = es.create_variables("lam", interfaces=intfs)

    def mat(a):
        if isinstance(a, np.ndarray) and a.dtype == object:
            mask = np.ones(a.shape, dtype=bool)
            return pp.ad.SparseArray(SymSparse(a, "csr", mask))
        return pp.ad.SparseArray(sps.csr_matrix(a))

    c1, c2, c3 = (pp.ad.DenseArray(coef[k]) for k in ("c1", "c2", "c3"))
    xm = x.sub_vars[0] if x.sub_vars[0].domain.dim == 2 else x.sub_vars[1]
    if secondary_local:
        # E3 is local in lam (diagonal secondary block for the Schur complement)
        e3 = c3 * lam * lam + lam - pp.ad.Scalar(2.0)
    else:
        e3 = c3 * lam * lam + mat(coef["M3"]) @ x
    e1 = c1 * x * x + mat(coef["M1"]) @ lam + x
    e2 = c2 * xm + xm * xm * pp.ad.Scalar(0.5)
    e1.set_name("E1")
    e2.set_name("E2")
    e3.set_name("E3")
    es.set_equation(e1, sds, {"cells": 1})
    if with_e2:
        es.set_equation(e2, matrix, {"cells": 1})
    es.set_equation(e3, intfs, {"cells": 1})
    return {"es": es, "x": x, "lam": lam, "xm": xm, "sds": sds, "intfs": intfs, "matrix": matrix}
