"""C05 — degree-of-freedom layout is a bijection under any variable history (case split).

Histories of create/remove operations are enumerated within the bound (stated plainly: the
layout clauses are bounded-exhaustive exploration of concrete histories); the values written
and read, the vectors projected, and the additive updates are symbolic and decided by z3.
"""
from __future__ import annotations

import itertools
import random

import numpy as np
import z3

from ..adutil import dense
from ..arr import SymArr
from ..sym import lift

PID = "C05"
TARGET_PREFIXES = ("numerics/ad/equation_system",)

META = {
    "explanation": "create_variables/remove_variables/_append_dofs/_cluster_dofs_gridwise/dofs_of/identify_dof/"
                   "projection_to/set_variable_values/get_variable_values under enumerated create/remove "
                   "histories with symbolic written values",
    "assumptions": ["floats as exact reals", "md-grid: 2x2 matrix + 2-cell fracture + interface (3 grids)"],
    "stubs": [],
    "outside": ["histories longer than the bound", "other md-grids"],
    "operations": "create on subdomain subsets / interfaces, remove an md-variable or one sub-variable, create an existing name on further grids, rejected overlapping create",
}

DOFS = [{"cells": 1}, {"cells": 2}, {"cells": 1, "faces": 1}, {"nodes": 1}]
SUBSETS = ["all", "matrix", "fracture", "reversed"]


def _alphabet():
    ops = []
    for sub in SUBSETS:
        for d in range(len(DOFS)):
            ops.append(("cs", sub, d))
    for d in (0, 1):
        ops.append(("ci", d))
    for k in range(3):
        ops.append(("rm", k))       # remove the k-th live md-variable (if it exists)
    ops.append(("rm1", 0))          # remove only the first sub-variable of the first live md-variable
    # the name of the first live md-variable again: on the subdomains it does not live on yet (allowed),
    # and on a list that mixes fresh grids with grids it already lives on (must be rejected atomically)
    ops.append(("extend", 0))
    ops.append(("overlap", 0))      # fresh grids first, then a grid where the name exists
    ops.append(("overlap", 1))      # a grid where the name exists first
    return ops


def shards(tier, seed):
    ops = _alphabet()
    hs = [h for L in (1, 2) for h in itertools.product(range(len(ops)), repeat=L)]
    rnd = random.Random(5 + seed)
    all3 = list(itertools.product(range(len(ops)), repeat=3))
    if tier == "quick":
        rnd.shuffle(all3)
        hs += all3[:300]
    else:
        hs += all3
        all4 = [tuple(rnd.randrange(len(ops)) for _ in range(4)) for _ in range(3000)]
        hs += all4
    k = 8 if tier == "quick" else 16
    return [{"hists": [list(h) for h in hs[i::k]]} for i in range(k)]


_ENV = {}


def _mdg():
    if _ENV:
        return _ENV
    import porepy as pp

    mdg, _ = pp.mdg_library.square_with_orthogonal_fractures("cartesian", {"cell_size": 0.5}, fracture_indices=[1])
    _ENV.update(mdg=mdg)
    return _ENV


def _reset(mdg):
    import porepy as pp

    for _, d in list(mdg.subdomains(return_data=True)) + list(mdg.interfaces(return_data=True)):
        d.pop(pp.TIME_STEP_SOLUTIONS, None)
        d.pop(pp.ITERATE_SOLUTIONS, None)


def _ndof(grid, info):
    import porepy as pp

    n = grid.num_cells * info.get("cells", 0)
    if isinstance(grid, pp.Grid):
        n += grid.num_faces * info.get("faces", 0) + grid.num_nodes * info.get("nodes", 0)
    return n


def _drive(hist, values_of, check, sample=None):
    """Runs the history on a fresh EquationSystem and evaluates all clauses through `check`.
    values_of(tag, n) supplies the vectors written/projected (symbolic or float)."""
    import porepy as pp

    mdg = _mdg()["mdg"]
    _reset(mdg)
    es = pp.ad.EquationSystem(mdg)
    ops = _alphabet()
    sds, intfs = mdg.subdomains(), mdg.interfaces()
    live = []      # [(name, [(variable, grid, info)])] in creation order  -- harness ghost
    counter = 0
    for step, oi in enumerate(hist):
        op = ops[oi]
        if op[0] in ("cs", "ci"):
            name = f"v{counter}"
            counter += 1
            if op[0] == "cs":
                grids = {"all": list(sds), "matrix": [g for g in sds if g.dim == 2],
                         "fracture": [g for g in sds if g.dim == 1], "reversed": list(sds)[::-1]}[op[1]]
                info = DOFS[op[2]]
                mdv = es.create_variables(name, dof_info=dict(info), subdomains=grids)
            else:
                grids = list(intfs)
                info = {"cells": 1 + op[1]}
                mdv = es.create_variables(name, dof_info=dict(info), interfaces=grids)
            check("created-on-requested-grids", [v.domain for v in mdv.sub_vars] == grids)
            live.append((name, [(v, v.domain, info) for v in mdv.sub_vars]))
        elif op[0] in ("extend", "overlap"):
            cand = [(nm, subs) for nm, subs in live if subs and isinstance(subs[0][1], pp.Grid)]
            if cand:
                name, subs = cand[0]
                have = [g for _, g, _ in subs]
                same_name = [g for nm, ss in live if nm == name for _, g, _ in ss]
                fresh = [g for g in sds if not any(g is h for h in same_name)]
                info = subs[0][2]
                if op[0] == "extend":
                    if fresh:
                        mdv = es.create_variables(name, dof_info=dict(info), subdomains=fresh)
                        check("created-on-requested-grids", [v.domain for v in mdv.sub_vars] == fresh)
                        live.append((name, [(v, v.domain, info) for v in mdv.sub_vars]))
                elif fresh:
                    grids = (fresh + have[:1]) if op[1] == 0 else (have[:1] + fresh)
                    try:
                        es.create_variables(name, dof_info=dict(info), subdomains=grids)
                        check("overlapping-create-is-rejected", False)
                    except KeyError:
                        check("overlapping-create-is-rejected", True)
                    # the rejected request must leave the system exactly as it was (checked below)
        elif op[0] == "rm":
            if op[1] < len(live):
                name, subs = live.pop(op[1])
                es.remove_variables([v for v, _, _ in subs])
        elif op[0] == "rm1":
            if live and live[0][1]:
                v, _, _ = live[0][1].pop(0)
                es.remove_variables([v])
                if not live[0][1]:
                    live.pop(0)
        # ---------------- expected layout (independent oracle)
        blocks = []
        for grid in list(sds) + list(intfs):
            for name, subs in live:
                for v, g, info in subs:
                    if g is grid:
                        blocks.append((v, _ndof(g, info)))
        total = sum(n for _, n in blocks)
        check("num-dofs", es.num_dofs() == total)
        if es.num_dofs() != total:
            return
        start = 0
        owner = []
        for v, n in blocks:
            got = es.dofs_of([v])
            check("contiguous-block-in-order", list(got) == list(range(start, start + n)))
            owner += [v] * n
            start += n
        check("registered-variables", {v.id for v in es.variables} == {v.id for v, _ in blocks})
        for i in range(total):
            try:
                who = es.identify_dof(i)
            except Exception:  # noqa: BLE001  (an admissible index must be identified)
                who = None
            check("identify-dof", who is owner[i])
        for bad in (-1, total):
            try:
                es.identify_dof(bad)
                check("identify-dof-out-of-range-raises", False)
            except KeyError:
                check("identify-dof-out-of-range-raises", True)
        if total == 0:
            continue
        # ---------------- projections and value round trips on symbolic data
        vec = values_of(f"u{step}", total)
        es.set_variable_values(vec, iterate_index=0)
        back = es.get_variable_values(iterate_index=0)
        check("write-read-all", ("eq", back, vec))
        md_names = list(dict.fromkeys(name for name, _ in live))     # a name extended to more grids is one key
        subsets = [[n] for n in md_names] + ([md_names[::-1]] if len(md_names) > 1 else [])
        if len(blocks) > 1:
            subsets.append([blocks[-1][0], blocks[0][0]])      # single variables, reversed order
        for sub in subsets:
            idx = np.sort(es.dofs_of(list(sub)))
            P = es.projection_to(list(sub))
            check("projection-shape", P.shape == (idx.size, total))
            if P.shape == (idx.size, total):
                check("projection-selects-indices", ("eq", P @ vec, np.asarray(vec, dtype=object)[idx]))
            got = es.get_variable_values(list(sub), iterate_index=0)
            check("read-subset-in-global-order", ("eq", got, np.asarray(vec, dtype=object)[idx]))
            w = values_of(f"w{step}_{len(idx)}_{idx[0] if idx.size else 0}", idx.size)
            es.set_variable_values(w, list(sub), iterate_index=0)
            got2 = es.get_variable_values(list(sub), iterate_index=0)
            check("write-read-subset", ("eq", got2, w))
            rest = np.setdiff1d(np.arange(total), idx)
            allv = es.get_variable_values(iterate_index=0)
            check("write-subset-leaves-others", ("eq", np.asarray(allv, dtype=object)[rest],
                                                 np.asarray(vec, dtype=object)[rest]))
            a = values_of(f"a{step}_{len(idx)}_{idx[0] if idx.size else 0}", idx.size)
            es.set_variable_values(a, list(sub), iterate_index=0, additive=True)
            got3 = es.get_variable_values(list(sub), iterate_index=0)
            check("additive-write", ("eq", got3, np.asarray(w, dtype=object) + np.asarray(a, dtype=object)))
            es.set_variable_values(vec, iterate_index=0)
    if sample is not None:
        sample({"history": [list(map(str, ops[o])) for o in hist], "final_dofs": es.num_dofs(),
                "blocks": [(v.name, n) for v, n in blocks] if hist else []})


def harness(ctx, hist):
    from ..sym import PathAbort

    def case(conc):
        return {"hist": list(hist)}

    def values_of(tag, n):
        return ctx.reals(tag, n)

    def check(name, claim):
        if isinstance(claim, tuple) and claim[0] == "eq":
            a, b = np.asarray(claim[1], dtype=object), np.asarray(claim[2], dtype=object)
            if a.shape != b.shape:
                ctx.check(name, False, case)
                return
            ctx.check(name, z3.And([lift(x) == lift(y) for x, y in zip(a.ravel().tolist(), b.ravel().tolist())])
                      if a.size else True, case)
        else:
            ctx.check(name, bool(claim), case)

    try:
        _drive(hist, values_of, check, ctx.sample if ctx.rep.paths % 211 == 0 else None)
    except PathAbort:
        raise
    except Exception as e:  # noqa: BLE001
        # the documented API raised on an admissible history
        ctx.check(f"api-does-not-raise[{type(e).__name__}]", False, case)
    ctx.reach("end")
    if ctx.rep.paths % 9 == 0:
        ctx.validate_replay("float-run", case)


def run_shard(ex, shard):
    _mdg()
    for h in shard["hists"]:
        ex.run(harness, label="h" + "-".join(map(str, h)), args=(h,))


# ---------------------------------------------------------------- real-code side


def concrete_run(case):
    raise NotImplementedError


def replay_case(case):
    rng = np.random.default_rng(7)
    problems = []

    def values_of(tag, n):
        return rng.integers(-8, 9, size=n).astype(float)

    def check(name, claim):
        if isinstance(claim, tuple) and claim[0] == "eq":
            a, b = np.asarray(claim[1], dtype=float), np.asarray(claim[2], dtype=float)
            ok = a.shape == b.shape and np.array_equal(a, b)
        else:
            ok = bool(claim)
        if not ok:
            problems.append(name)

    try:
        _drive(case["hist"], values_of, check)
    except Exception as e:  # noqa: BLE001
        problems.append(f"raised {type(e).__name__}: {str(e)[:80]}")
    if problems:
        ops = _alphabet()
        return True, f"history {[ops[o] for o in case['hist']]}: violated {sorted(set(problems))}"
    return False, "layout consistent"
