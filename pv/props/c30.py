"""C30 — distance computations are exact (point-point, point-segment and segment-segment kernels)."""
from __future__ import annotations

import numpy as np
import z3

from ..arr import SymArr
from ..sym import lift, rv

PID = "C30"
TARGET_PREFIXES = ("geometry/distances",)

META = {
    "explanation": "distances.points_segments (both loop orders: fewer points than segments and vice versa) and "
                   "distances.point_pointset executed on symbolic point / segment coordinates in 2-d and 3-d; the three "
                   "cases of the projection parameter fork the paths; z3 decides that the returned distance is the "
                   "Euclidean distance to the returned closest point, that the closest point lies on the segment and that "
                   "no point of the segment is closer (variational inequality of the projection onto a convex set, checked at both end points)",
    "assumptions": ["floats as exact reals", "coordinates in [-2, 2], segments of squared length >= 1/4",
                    "2-d: 1 x 1, 1 x 2 and 2 x 1 points x segments; 3-d: one point and one segment (for larger configurations z3 did not return)"],
    "stubs": ["np.sqrt(x) / x ** 0.5: |t| when x is syntactically t*t, otherwise fresh r >= 0 with r*r == x",
              "np.ma comparisons of symbolic arrays: decided per element (forks)"],
    "outside": ["segment_segment_set with symbolic DIRECTIONS (directions are enumerated: SEG_DIRS; positions symbolic; "
                "assumption: no candidate numerator of a line parameter in (0, 2*SMALL_TOLERANCE))",
                "segment_set, points_polygon, segments_polygon, segment_overlap_segment_set "
                "(closest-feature case splits over several nested square roots; polygon routines use shapely-free but "
                "rotation-based projections, see DESIGN.md 10.5)", "pointset (scipy cdist, compiled)"],
}


def shards(tier, seed):
    out = []
    for nd, sizes in ((2, [(1, 1), (1, 2), (2, 1)]), (3, [(1, 1)])):
        for np_, nl in sizes:
            out.append({"kind": "points_segments", "nd": nd, "np": np_, "nl": nl})
    for nd in (2, 3):
        for ns in (1, 2, 3):
            out.append({"kind": "point_pointset", "nd": nd, "ns": ns})
    # segment - segment-set kernel: directions enumerated (exact dyadic), positions symbolic
    for k in range(len(SEG_DIRS)):
        out.append({"kind": "segseg", "dirs": k})
    return out


# (direction of the main segment, directions of the set members); the last entries are ill-scaled:
# a shallow crossing next to a much longer set member, and a short segment crossing a unit segment
SEG_DIRS = [
    ([1, 0, 0], [[0, 1, 0]]),
    ([1, 1, 0], [[1, -1, 1]]),
    ([2, 0, 0], [[1, 1, 0]]),
    ([1, 0, 0], [[2, 0, 0]]),
    ([1, 0, 0], [[-1, 0, 0]]),
    ([1, 2, -1], [[0.5, 1, -0.5]]),
    ([1, 0, 0], [[0, 1, 0], [1, 1, 1]]),
    ([1, 0, 0], [[1, 2 ** -7, 0], [128, 0, 1]]),
    ([1, 0, 0], [[2 ** -10, 2 ** -14, 0]]),
    ([64, 0, 0], [[1, 2 ** -6, 0]]),
]


def configure(cfg, tier):
    cfg.incremental_first = False
    cfg.slice_first = True
    cfg.simplify_div = True
    cfg.fresh_branches = True
    cfg.interval_first = True
    cfg.branch_timeout_ms = 10000
    cfg.query_timeout_ms = 60000 if tier == "quick" else 300000
    cfg.max_paths = 200


def _sq(v):
    return z3.Sum([x * x for x in v])


def harness(ctx, shard):
    import porepy as pp

    nd = shard.get("nd", 3)
    inputs = {"shard": shard}

    def case(conc):
        c = conc(inputs)
        return {k: (v if k == "shard" else np.asarray(v, dtype=float).tolist()) for k, v in c.items()}

    if shard["kind"] == "segseg":
        return _segseg_harness(ctx, shard)
    if shard["kind"] == "point_pointset":
        ns = shard["ns"]
        p = [ctx.real(f"p{d}", -2, 2) for d in range(nd)]
        Q = [[ctx.real(f"q{d}_{j}", -2, 2) for j in range(ns)] for d in range(nd)]
        inputs.update(p=p, Q=Q)
        pa = np.empty(nd, dtype=object)
        Qa = np.empty((nd, ns), dtype=object)
        for d in range(nd):
            pa[d] = p[d]
            for j in range(ns):
                Qa[d, j] = Q[d][j]
        dist = np.asarray(pp.distances.point_pointset(pa.view(SymArr), Qa.view(SymArr)), dtype=object).ravel()
        ctx.check("result-shape", dist.shape == (ns,), case)
        for j in range(min(ns, dist.size)):
            d2 = _sq([lift(p[d]) - lift(Q[d][j]) for d in range(nd)])
            ctx.check("distance-is-euclidean", z3.And(lift(dist[j]) >= 0, lift(dist[j]) * lift(dist[j]) == d2), case)
    else:
        npts, nl = shard["np"], shard["nl"]
        P = np.empty((nd, npts), dtype=object)
        S = np.empty((nd, nl), dtype=object)
        E = np.empty((nd, nl), dtype=object)
        for d in range(nd):
            for i in range(npts):
                P[d, i] = ctx.real(f"p{d}_{i}", -2, 2)
            for j in range(nl):
                S[d, j] = ctx.real(f"s{d}_{j}", -2, 2)
                E[d, j] = ctx.real(f"e{d}_{j}", -2, 2)
        for j in range(nl):
            ctx.assume(_sq([lift(E[d, j]) - lift(S[d, j]) for d in range(nd)]) >= rv(0.25))
        inputs.update(P=P.copy(), S=S.copy(), E=E.copy())
        dist, cp = pp.distances.points_segments(P.copy().view(SymArr), S.copy().view(SymArr), E.copy().view(SymArr))
        dist, cp = np.asarray(dist, dtype=object), np.asarray(cp, dtype=object)
        ctx.check("result-shape", dist.shape == (npts, nl) and cp.shape == (npts, nl, nd), case)
        if dist.shape == (npts, nl) and cp.shape == (npts, nl, nd):
            for i in range(npts):
                for j in range(nl):
                    p = [lift(P[d, i]) for d in range(nd)]
                    s = [lift(S[d, j]) for d in range(nd)]
                    e = [lift(E[d, j]) for d in range(nd)]
                    c = [lift(cp[i, j, d]) for d in range(nd)]
                    line = [b - a for a, b in zip(s, e)]
                    w = [b - a for a, b in zip(s, c)]
                    d2 = _sq([a - b for a, b in zip(p, c)])
                    ctx.check("distance-is-euclidean-distance-to-closest-point",
                              z3.And(lift(dist[i, j]) >= 0, lift(dist[i, j]) * lift(dist[i, j]) == d2), case)
                    if nd == 2:
                        col = [w[0] * line[1] - w[1] * line[0] == 0]
                    else:
                        col = [w[1] * line[2] - w[2] * line[1] == 0, w[2] * line[0] - w[0] * line[2] == 0,
                               w[0] * line[1] - w[1] * line[0] == 0]
                    dot = z3.Sum([a * b for a, b in zip(w, line)])
                    ctx.check("closest-point-lies-on-the-segment", z3.And(*col, dot >= 0, dot <= _sq(line)), case)
                    # projection theorem for the convex set [s, e]: c is the closest point of the segment iff
                    # (p - c).(q - c) <= 0 for all q in the segment; the left side is affine in q, so the two
                    # end points suffice
                    pc = [a - b for a, b in zip(p, c)]
                    v0 = z3.Sum([a * (b - cc) for a, b, cc in zip(pc, s, c)])
                    v1 = z3.Sum([a * (b - cc) for a, b, cc in zip(pc, e, c)])
                    ctx.check("no-point-of-the-segment-is-closer", z3.And(v0 <= 0, v1 <= 0), case)
    m = ctx.reach("end")
    if m is not None and ctx.rep.paths % 2 == 0:
        ctx.validate_replay("float-run", case, model=m)
    if ctx.idx < 2:
        ctx.sample({"shard": shard, "path": ctx.idx})


def _fr(x):
    import fractions
    return fractions.Fraction(x)


def _segseg_tolerance(d1, D2):
    """SMALL_TOLERANCE of segment_segment_set as the code computes it (float arithmetic on the concrete directions)."""
    d1 = np.array(d1, dtype=float)
    D2 = np.array(D2, dtype=float).T
    return float(1e-8 * np.minimum((d1 * d1).sum(), np.min((D2 * D2).sum(axis=0))))


def _segseg_harness(ctx, shard):
    import porepy as pp

    d1f, D2f = SEG_DIRS[shard["dirs"]]
    ns = len(D2f)
    inputs = {"shard": shard}

    def case(conc):
        c = conc(inputs)
        return {k: (v if k == "shard" else np.asarray(v, dtype=float).tolist()) for k, v in c.items()}

    a = [ctx.real(f"a{d}", -2, 2) for d in range(3)]
    B = [[ctx.real(f"b{d}_{j}", -2, 2) for j in range(ns)] for d in range(3)]
    inputs.update(a=a, B=B)
    start = np.empty((3, 1), dtype=object)
    end = np.empty((3, 1), dtype=object)
    S = np.empty((3, ns), dtype=object)
    E = np.empty((3, ns), dtype=object)
    for d in range(3):
        start[d, 0] = a[d]
        end[d, 0] = a[d] + float(d1f[d])
        for j in range(ns):
            S[d, j] = B[d][j]
            E[d, j] = B[d][j] + float(D2f[j][d])
    tol = rv(_fr(_segseg_tolerance(d1f, D2f)))
    d1 = [rv(_fr(x)) for x in d1f]
    # stated assumption: none of the candidate numerators of the two line parameters lies in the open
    # interval (0, 2 * SMALL_TOLERANCE), where the code snaps the parameter to 0 on purpose
    for j in range(ns):
        d2 = [rv(_fr(x)) for x in D2f[j]]
        w0 = [lift(a[d]) - lift(B[d][j]) for d in range(3)]
        d11, d12, d22 = _dotc(d1, d1), _dotc(d1, d2), _dotc(d2, d2)
        d1s = z3.Sum([x * y for x, y in zip(d1, w0)])
        d2s = z3.Sum([x * y for x, y in zip(d2, w0)])
        for X in (d12 * d2s - d22 * d1s, d11 * d2s - d12 * d1s, -d1s, -d1s + d12, d2s, d12 + d2s):
            ctx.assume(z3.Or(X <= 0, X >= 2 * tol))   # factor 2: float vs exact product in the tolerance
    dist, cp1, cp2 = pp.distances.segment_segment_set(start.view(SymArr), end.view(SymArr), S.view(SymArr), E.view(SymArr))
    dist, cp1, cp2 = (np.asarray(x, dtype=object) for x in (dist, cp1, cp2))
    ok = dist.shape == (ns,) and cp1.shape == (3, ns) and cp2.shape == (3, ns)
    ctx.check("result-shape", ok, case)
    if ok:
        for j in range(ns):
            d2 = [rv(_fr(x)) for x in D2f[j]]
            c1 = [lift(cp1[d, j]) for d in range(3)]
            c2 = [lift(cp2[d, j]) for d in range(3)]
            w = [x - y for x, y in zip(c1, c2)]
            ctx.check("distance-is-euclidean-distance-between-the-closest-points",
                      z3.And(lift(dist[j]) >= 0, lift(dist[j]) * lift(dist[j]) == _sq(w)), case)
            # closest points lie on their segments: c1 = a + s d1, c2 = b + t d2 with s, t in [0, 1]
            sv, tv = ctx.fresh_real("s"), ctx.fresh_real("t")
            on1 = z3.And(*[c1[d] == lift(a[d]) + lift(sv) * d1[d] for d in range(3)])
            on2 = z3.And(*[c2[d] == lift(B[d][j]) + lift(tv) * d2[d] for d in range(3)])
            u1 = [c1[d] - lift(a[d]) for d in range(3)]
            u2 = [c2[d] - lift(B[d][j]) for d in range(3)]
            s_num, t_num = z3.Sum([x * y for x, y in zip(u1, d1)]), z3.Sum([x * y for x, y in zip(u2, d2)])
            d11, d22 = _dotc(d1, d1), _dotc(d2, d2)
            col1 = z3.And(*[u1[d] * d11 == s_num * d1[d] for d in range(3)])
            col2 = z3.And(*[u2[d] * d22 == t_num * d2[d] for d in range(3)])
            ctx.check("closest-points-lie-on-the-segments",
                      z3.And(col1, col2, s_num >= 0, s_num <= d11, t_num >= 0, t_num <= d22), case)
            # optimality (KKT conditions of the convex problem min |a + s d1 - b - t d2|^2 over [0,1]^2):
            # g_s = d1.w >= 0 unless s > 0, <= 0 unless s < 1; g_t = -d2.w likewise
            gs = z3.Sum([x * y for x, y in zip(d1, w)])
            gt = -z3.Sum([x * y for x, y in zip(d2, w)])
            ctx.check("no-pair-of-points-is-closer",
                      z3.And(z3.Or(s_num <= 0, gs <= 0), z3.Or(s_num >= d11, gs >= 0),
                             z3.Or(t_num <= 0, gt <= 0), z3.Or(t_num >= d22, gt >= 0)), case)
    m = ctx.reach("end")
    if m is not None and ctx.rep.paths % 2 == 0:
        ctx.validate_replay("float-run", case, model=m)
    if ctx.idx < 2:
        ctx.sample({"shard": shard, "path": ctx.idx})


def _dotc(u, v):
    return z3.simplify(z3.Sum([x * y for x, y in zip(u, v)]))


def run_shard(ex, shard):
    ex.run(harness, label=str(shard), args=(shard,), max_paths=2000 if shard["kind"] == "segseg" else None)


# ---------------------------------------------------------------- real-code side


def concrete_run(case):
    raise NotImplementedError


def replay_case(case):
    import porepy as pp

    shard = case["shard"]
    if shard["kind"] == "segseg":
        d1f, D2f = SEG_DIRS[shard["dirs"]]
        a = np.array(case["a"], dtype=float).reshape((3, 1))
        B = np.array(case["B"], dtype=float).reshape((3, -1))
        d1 = np.array(d1f, dtype=float).reshape((3, 1))
        D2 = np.array(D2f, dtype=float).T
        dist, cp1, cp2 = pp.distances.segment_segment_set(a, a + d1, B, B + D2)
        ts = np.linspace(0, 1, 401)
        problems = []
        for j in range(B.shape[1]):
            P = a + d1 * ts                                   # 3 x n
            Q = B[:, [j]] + D2[:, [j]] * ts
            true = np.sqrt(((P[:, :, None] - Q[:, None, :]) ** 2).sum(axis=0)).min()
            if abs(dist[j] - np.linalg.norm(cp1[:, j] - cp2[:, j])) > 1e-9:
                problems.append(f"[{j}] distance {dist[j]} is not the distance of the returned closest points")
            if dist[j] > true + 1e-6 * (1 + true):
                problems.append(f"[{j}] distance {dist[j]} but two points of the segments are at {true}")
            for c, o, dd in ((cp1[:, j], a[:, 0], d1[:, 0]), (cp2[:, j], B[:, j], D2[:, j])):
                u = c - o
                if np.linalg.norm(np.cross(u, dd)) > 1e-9 * (1 + dd @ dd) or not (-1e-9 <= u @ dd <= dd @ dd * (1 + 1e-9)):
                    problems.append(f"[{j}] closest point {c.tolist()} not on its segment")
        if problems:
            return True, f"segment {a.T.tolist()} + {d1f} vs {B.T.tolist()} + {D2f}: {problems[:3]}"
        return False, "exact"
    if shard["kind"] == "point_pointset":
        p = np.array(case["p"], dtype=float)
        Q = np.array(case["Q"], dtype=float)
        d = pp.distances.point_pointset(p, Q)
        ref = np.sqrt(((Q - p.reshape((-1, 1))) ** 2).sum(axis=0))
        if np.shape(d) != ref.shape or not np.allclose(d, ref, atol=1e-12):
            return True, f"point_pointset({p.tolist()}, {Q.tolist()}) = {np.asarray(d).tolist()} != {ref.tolist()}"
        return False, "exact"
    P, S, E = (np.array(case[k], dtype=float) for k in ("P", "S", "E"))
    d, cp = pp.distances.points_segments(P, S, E)
    problems = []
    ts = np.linspace(0, 1, 2001)
    for i in range(P.shape[1]):
        for j in range(S.shape[1]):
            seg = S[:, [j]] + (E[:, [j]] - S[:, [j]]) * ts
            true = np.sqrt(((seg - P[:, [i]]) ** 2).sum(axis=0)).min()
            if abs(d[i, j] - np.linalg.norm(P[:, i] - cp[i, j])) > 1e-10:
                problems.append(f"({i},{j}): distance {d[i, j]} is not the distance to the closest point {cp[i, j].tolist()}")
            if d[i, j] > true + 1e-6:
                problems.append(f"({i},{j}): distance {d[i, j]} but a point of the segment is at {true}")
            w, line = cp[i, j] - S[:, j], E[:, j] - S[:, j]
            if np.linalg.norm(np.cross(np.append(w, 0)[:3], np.append(line, 0)[:3])) > 1e-9 or not (-1e-9 <= w @ line <= line @ line + 1e-9):
                problems.append(f"({i},{j}): closest point {cp[i, j].tolist()} not on the segment")
    if problems:
        return True, f"points {P.T.tolist()} segments {S.T.tolist()} - {E.T.tolist()}: {problems[:3]}"
    return False, "exact"
