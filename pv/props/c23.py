"""C23 — refinement and extrusion preserve measure and nesting (symbolic node positions / layers)."""
from __future__ import annotations

import numpy as np
import z3

from ..arr import SymArr
from ..sym import SReal, lift, rv

PID = "C23"
TARGET_PREFIXES = ("grids/refinement", "grids/grid_extrusion", "grids/grid", "grids/simplex", "grids/structured")

MINLEN = 1.0 / 64

META = {
    "explanation": "refinement.refine_grid_1d (ratios 2-4), remesh_1d, refine_triangle_grid and grid_extrusion.extrude_grid "
                   "(0d->1d, 1d->2d) executed on grids whose node coordinates and extrusion layers are symbolic; the "
                   "geometry of the new grids is computed by the real compute_geometry on the symbolic nodes; z3 decides "
                   "measure preservation, nesting and the parent maps for all coordinates",
    "assumptions": ["floats as exact reals (the fractions i/ratio are the doubles the code computes)",
                    f"1-d grids: 2-4 cells on the x-axis (cells and nodes numbered along the line and in five other orders), increasing nodes in [-4, 8] with spacing >= {MINLEN}, total length >= 1/4",
                    "triangle grids: one or two triangles with all vertices symbolic, and 2x1 / 2x2 structured triangle grids with "
                    "1-2 symbolic vertices; displacements of at most 1/8 in each coordinate (cells stay positively oriented)",
                    "extrusion layers: 2-3 symbolic increasing z values starting at 0, thickness >= 1/64"],
    "stubs": ["np.sqrt(x): |t| when x is syntactically t*t, otherwise fresh r >= 0 with r*r == x"],
    "outside": ["structured_refinement, mdg_refinement, GridSequenceFactory (gmsh)", "extrusion 2d->3d (3-d geometry, see C19)",
                "grids embedded obliquely in 3-d"],
}


def shards(tier, seed):
    out = []
    for n in ((2, 3) if tier == "quick" else (2, 3, 4)):
        for ratio in (2, 3, 4):
            out.append({"kind": "refine1d", "n": n, "ratio": ratio})
    # grids whose cells / nodes are not numbered along the line (right-to-left, middle-out, gap-filling)
    for n, node_perm, cell_perm, ratio in ((3, [3, 2, 1, 0], [0, 1, 2], 2), (3, [0, 1, 2, 3], [2, 1, 0], 3),
                                           (4, [0, 1, 2, 3, 4], [0, 2, 3, 1], 2), (4, [2, 0, 4, 1, 3], [3, 1, 0, 2], 2),
                                           (3, [1, 3, 0, 2], [1, 2, 0], 4)):
        if tier != "quick" or n == 3 or cell_perm == [0, 2, 3, 1]:
            out.append({"kind": "refine1d", "n": n, "ratio": ratio, "node_perm": node_perm, "cell_perm": cell_perm})
    for n, nn in (((2, 2), (2, 4), (3, 3)) if tier == "quick" else ((2, 2), (2, 3), (2, 4), (3, 3), (3, 4), (2, 6))):
        out.append({"kind": "remesh1d", "n": n, "num_nodes": nn})
    for nt in (1, 2):
        out.append({"kind": "refine_tri", "nt": nt})
    # larger triangle grids (cells whose shared node sits at different positions of the sorted node
    # lists): concrete structured grids, one or two displaced nodes
    for dims, nodesets in (((2, 1), ([1], [4], [0, 4])), ((2, 2), ([4], [1, 3]))):
        for ns in (nodesets if tier != "quick" else nodesets[:2]):
            out.append({"kind": "refine_tri", "nt": 0, "dims": list(dims), "nodes": ns})
    for n, nz in (((1, 2), (2, 2)) if tier == "quick" else ((1, 2), (2, 2), (1, 3), (2, 3))):
        out.append({"kind": "extrude1d", "n": n, "nz": nz})
    # 1-d grids whose faces are not numbered like their nodes (fracture grids split at intersections)
    out.append({"kind": "extrude1d", "n": 2, "nz": 2, "face_perm": [0, 2, 1]})
    out.append({"kind": "extrude1d", "n": 2, "nz": 2, "face_perm": [2, 0, 1]})
    for nz in (2, 3, 4):
        out.append({"kind": "extrude0d", "nz": nz})
    return out


def configure(cfg, tier):
    cfg.incremental_first = False
    cfg.slice_first = True
    cfg.simplify_div = True
    cfg.fresh_branches = True
    cfg.interval_first = True
    cfg.branch_timeout_ms = 10000
    cfg.query_timeout_ms = 60000 if tier == "quick" else 240000
    cfg.max_paths = 80


def _numbered_line_grid(positions, node_perm=None, cell_perm=None, face_perm=None):
    """1-d grid on the x-axis whose nodes / cells are numbered in the given order (position k gets
    node number node_perm[k]; the cell between positions k and k+1 gets number cell_perm[k])."""
    import porepy as pp
    import scipy.sparse as sps_

    n = len(positions) - 1
    node_perm = list(range(n + 1)) if node_perm is None else list(node_perm)
    cell_perm = list(range(n)) if cell_perm is None else list(cell_perm)
    # the face at position k has number face_perm[k] (default: the number of its node)
    face_perm = list(node_perm) if face_perm is None else list(face_perm)
    rows, cols, data = [], [], []
    for k in range(n):
        rows += [face_perm[k], face_perm[k + 1]]
        cols += [cell_perm[k], cell_perm[k]]
        data += [-1, 1]
    # compressed storage given directly, columns in cell order, the face with sign -1 listed first (as the
    # grids of the library do; nothing sorts the indices)
    order = np.argsort(np.array(cols[::2]), kind="stable")
    ind = np.array([[rows[2 * k], rows[2 * k + 1]] for k in order]).ravel()
    cf = sps_.csc_matrix((np.tile([-1, 1], n), ind, np.arange(0, 2 * n + 1, 2)), shape=(n + 1, n))
    fn = sps_.csc_matrix((np.ones(n + 1, dtype=bool), ([node_perm[k] for k in range(n + 1)],
                                                       [face_perm[k] for k in range(n + 1)])), shape=(n + 1, n + 1))
    nodes = np.zeros((3, n + 1))
    for k in range(n + 1):
        nodes[0, node_perm[k]] = float(k)
    g = pp.Grid(1, nodes, fn, cf, "numbered line grid")
    return g, node_perm, cell_perm


def _line_grid(ctx, n, tag="x", node_perm=None, cell_perm=None, face_perm=None):
    import porepy as pp

    xs = [ctx.real(f"{tag}{i}", -4, 8) for i in range(n + 1)]
    for a, b in zip(xs, xs[1:]):
        ctx.assume(lift(b) - lift(a) >= rv(MINLEN))
    ctx.assume(lift(xs[-1]) - lift(xs[0]) >= rv(0.25))
    if node_perm is None and cell_perm is None and face_perm is None:
        g = pp.TensorGrid(np.arange(n + 1, dtype=float))
        node_perm = list(range(n + 1))
    else:
        g, node_perm, cell_perm = _numbered_line_grid(list(range(n + 1)), node_perm, cell_perm, face_perm)
    N = np.empty((3, n + 1), dtype=object)
    N.fill(SReal(rv(0)))
    for k, x in enumerate(xs):
        N[0, node_perm[k]] = x
    g.nodes = N.copy().view(SymArr)
    g.compute_geometry()
    return g, xs


def _cell_interval(g, c):
    """(lo, hi) x-coordinates of the two nodes of 1-d cell c (terms)."""
    cn = g.cell_nodes().tocsc()
    idx = cn.indices[cn.indptr[c]:cn.indptr[c + 1]]
    a, b = (idx[0], idx[-1]) if len(idx) else (0, 0)      # a degenerate cell has one node (both faces equal)
    xa, xb = lift(g.nodes[0, a]), lift(g.nodes[0, b])
    return z3.If(xa <= xb, xa, xb), z3.If(xa <= xb, xb, xa)


def harness(ctx, shard):
    import porepy as pp

    kind = shard["kind"]
    inputs = {"shard": shard}

    def case(conc):
        c = conc(inputs)
        return {k: (v if k == "shard" else np.asarray(v, dtype=float).tolist()) for k, v in c.items()}

    if kind == "refine1d":
        g, xs = _line_grid(ctx, shard["n"], node_perm=shard.get("node_perm"), cell_perm=shard.get("cell_perm"))
        inputs["x"] = xs
        ratio = shard["ratio"]
        gn = pp.refinement.refine_grid_1d(g, ratio=ratio)
        ctx.check("cell-count", gn.num_cells == ratio * g.num_cells and gn.dim == 1, case)
        V = np.asarray(gn.cell_volumes, dtype=object)
        ctx.check("total-measure-preserved", z3.Sum([lift(v) for v in V.tolist()]) == lift(xs[-1]) - lift(xs[0]), case)
        for c in range(gn.num_cells):
            ctx.check("new-cells-have-positive-measure", lift(V[c]) > 0, case)
        # nesting: every new cell lies in exactly one old cell, and the children of an old cell fill it
        sums = [[] for _ in range(g.num_cells)]
        for c in range(gn.num_cells):
            lo, hi = _cell_interval(gn, c)
            inside = [z3.And(lo >= lift(xs[k]), hi <= lift(xs[k + 1])) for k in range(g.num_cells)]
            ctx.check("new-cell-inside-one-old-cell", z3.PbEq([(i, 1) for i in inside], 1), case)
            for k in range(g.num_cells):
                sums[k].append(z3.If(inside[k], lift(V[c]), 0))
        for k in range(g.num_cells):
            ctx.check("children-fill-their-parent", z3.Sum(sums[k]) == lift(xs[k + 1]) - lift(xs[k]), case)
    elif kind == "remesh1d":
        g, xs = _line_grid(ctx, shard["n"])
        inputs["x"] = xs
        nn = shard["num_nodes"]
        gn = pp.refinement.remesh_1d(g, nn)
        ctx.check("cell-count", gn.num_cells == nn - 1 and gn.dim == 1, case)
        V = np.asarray(gn.cell_volumes, dtype=object)
        L = lift(xs[-1]) - lift(xs[0])
        ctx.check("total-measure-preserved", z3.Sum([lift(v) for v in V.tolist()]) == L, case)
        for c in range(gn.num_cells):
            lo, hi = _cell_interval(gn, c)
            ctx.check("new-cells-inside-the-old-line", z3.And(lo >= lift(xs[0]), hi <= lift(xs[-1]), lift(V[c]) > 0), case)
    elif kind == "refine_tri":
        nt = shard["nt"]
        if nt == 0:
            g = pp.StructuredTriangleGrid(shard["dims"])
            ref = g.nodes[:2].copy()
            # cell-node table from a separate copy: the grid handed to the refinement is left exactly as
            # constructed (queries such as cell_nodes() may change the internal index order)
            cn = pp.StructuredTriangleGrid(shard["dims"]).cell_nodes().tocsc()
            tri = cn.indices.reshape((3, g.num_cells), order="F")
            moved = shard["nodes"]
        else:
            ref = np.array([[0.0, 1.0, 0.0, 1.0], [0.0, 0.0, 1.0, 1.0]])[:, : (3 if nt == 1 else 4)]
            tri = np.array([[0, 1, 2]]).T if nt == 1 else np.array([[0, 1, 2], [1, 3, 2]]).T
            g = pp.TriangleGrid(np.vstack([ref, np.zeros(ref.shape[1])]), tri=tri)
            moved = list(range(ref.shape[1]))
        nn = ref.shape[1]
        d = [[ctx.real(f"d{k}_{i}", -0.125, 0.125) for k in range(2)] for i in moved]
        inputs["d"] = d
        N = np.empty((3, nn), dtype=object)
        for i in range(nn):
            N[0, i] = SReal(rv(float(ref[0, i])))
            N[1, i] = SReal(rv(float(ref[1, i])))
            N[2, i] = SReal(rv(0))
        for i, dv in zip(moved, d):
            N[0, i] = N[0, i] + dv[0]
            N[1, i] = N[1, i] + dv[1]
        g.nodes = N.copy().view(SymArr)
        g.compute_geometry()
        gn, parent = pp.refinement.refine_triangle_grid(g)
        parent = np.asarray(parent)
        ctx.check("cell-count-and-parent-map", gn.num_cells == 4 * g.num_cells and parent.shape == (gn.num_cells,)
                  and all(0 <= int(p) < g.num_cells for p in parent.tolist()), case)
        # measures of the new cells from the new nodes (shoelace; the orientation of each triangle is taken
        # from the undisplaced configuration) -- the geometry computation itself is the subject of C19
        Nn = np.asarray(gn.nodes, dtype=object)
        subs = [(lift(x), z3.RealVal(0)) for dv in d for x in dv]
        cnn = gn.cell_nodes().tocsc()

        def tri_area(Nsym, idx):
            pts = [(lift(Nsym[0, i]), lift(Nsym[1, i])) for i in idx]
            (x0, y0), (x1, y1), (x2, y2) = pts
            ar = ((x1 - x0) * (y2 - y0) - (y1 - y0) * (x2 - x0)) / 2
            a0 = z3.simplify(z3.substitute(ar, *subs))
            return ar if a0.as_fraction() > 0 else -ar, pts

        Vn, Cn, Tn = [], [], []
        for c in range(gn.num_cells):
            idx = [int(i) for i in cnn.indices[cnn.indptr[c]:cnn.indptr[c + 1]]]
            ctx.check("new-cells-are-triangles", len(idx) == 3, case)
            ar, pts = tri_area(Nn, idx)
            if not z3.eq(ar, z3.simplify(ar)) or True:
                # counter-clockwise vertex list of the child (orientation of the undisplaced configuration)
                (x0, y0), (x1, y1), (x2, y2) = pts
                a0 = z3.simplify(z3.substitute(((x1 - x0) * (y2 - y0) - (y1 - y0) * (x2 - x0)), *subs))
                Tn.append(pts if a0.as_fraction() > 0 else [pts[0], pts[2], pts[1]])
            Vn.append(ar)
            Cn.append((z3.Sum([p[0] for p in pts]) / 3, z3.Sum([p[1] for p in pts]) / 3))
        Vo = [tri_area(N, [int(t) for t in tri[:, k]])[0] for k in range(g.num_cells)]
        ctx.check("total-measure-preserved", z3.Sum(Vn) == z3.Sum(Vo), case)
        for k in range(g.num_cells):
            ch = [c for c in range(gn.num_cells) if int(parent[c]) == k]
            ctx.check("four-children-per-parent", len(ch) == 4, case)
            ctx.check("children-fill-their-parent", z3.Sum([Vn[c] for c in ch]) == Vo[k], case)
            # children lie inside the parent: their centres have positive barycentric coordinates
            a, b, c3 = [int(t) for t in tri[:, k]]
            if float((ref[0, b] - ref[0, a]) * (ref[1, c3] - ref[1, a]) - (ref[1, b] - ref[1, a]) * (ref[0, c3] - ref[0, a])) < 0:
                b, c3 = c3, b           # counter-clockwise
            P = [(lift(N[0, i]), lift(N[1, i])) for i in (a, b, c3)]
            # the children tile the parent: together with the area sum and containment, no two children
            # may overlap (separating-axis test on the edges of the two triangles)
            for i1 in range(len(ch)):
                for i2 in range(i1 + 1, len(ch)):
                    ta, tb = Tn[ch[i1]], Tn[ch[i2]]
                    seps = []
                    for (tri1, tri2) in ((ta, tb), (tb, ta)):
                        for e in range(3):
                            p0, p1 = tri1[e], tri1[(e + 1) % 3]
                            seps.append(z3.And([(p1[0] - p0[0]) * (q_[1] - p0[1]) - (p1[1] - p0[1]) * (q_[0] - p0[0]) <= 0
                                                for q_ in tri2]))
                    ctx.check("children-do-not-overlap", z3.Or(seps), case)
            for c in ch:
                ctx.check("new-cells-have-positive-measure", Vn[c] > 0, case)
                q = Cn[c]
                for (p0, p1) in ((P[0], P[1]), (P[1], P[2]), (P[2], P[0])):
                    det = (p1[0] - p0[0]) * (q[1] - p0[1]) - (p1[1] - p0[1]) * (q[0] - p0[0])
                    ctx.check("child-centre-inside-parent", det > 0, case)
    elif kind == "extrude1d":
        g, xs = _line_grid(ctx, shard["n"], face_perm=shard.get("face_perm"))
        inputs["x"] = xs
        nz = shard["nz"]
        zs = [SReal(rv(0))] + [ctx.real(f"z{i}", 0, 4) for i in range(1, nz + 1)]
        for a, b in zip(zs, zs[1:]):
            ctx.assume(lift(b) - lift(a) >= rv(MINLEN))
        inputs["z"] = zs[1:]
        z = np.empty(nz + 1, dtype=object)
        for i, v in enumerate(zs):
            z[i] = v
        gn, cell_map, face_map = pp.grid_extrusion.extrude_grid(g, z.view(SymArr))
        ctx.check("cell-count", gn.dim == 2 and gn.num_cells == g.num_cells * nz, case)
        V = np.asarray(gn.cell_volumes, dtype=object)
        H = lift(zs[-1])
        ctx.check("total-measure-is-length-times-height", z3.Sum([lift(v) for v in V.tolist()]) == (lift(xs[-1]) - lift(xs[0])) * H, case)
        seen = []
        for k in range(g.num_cells):
            ch = [int(c) for c in np.asarray(cell_map[k]).ravel().tolist()]
            seen += ch
            ctx.check("children-fill-their-parent", z3.Sum([lift(V[c]) for c in ch]) == (lift(xs[k + 1]) - lift(xs[k])) * H, case)
            for c in ch:
                ctx.check("new-cells-have-positive-measure", lift(V[c]) > 0, case)
                cx = lift(gn.cell_centers[0, c])
                ctx.check("child-centre-above-parent", z3.And(cx > lift(xs[k]), cx < lift(xs[k + 1])), case)
        ctx.check("cell-map-assigns-each-new-cell-once", sorted(seen) == list(range(gn.num_cells)), case)
    elif kind == "extrude0d":
        nz = shard["nz"]
        px, py = ctx.real("px", -2, 2), ctx.real("py", -2, 2)
        zs = [SReal(rv(0))] + [ctx.real(f"z{i}", 0, 4) for i in range(1, nz + 1)]
        for a, b in zip(zs, zs[1:]):
            ctx.assume(lift(b) - lift(a) >= rv(MINLEN))
        ctx.assume(lift(zs[-1]) >= rv(0.25))
        inputs.update(p=[px, py], z=zs[1:])
        pt = np.empty((3, 1), dtype=object)
        pt[0, 0], pt[1, 0], pt[2, 0] = px, py, SReal(rv(0))
        g = pp.PointGrid(np.zeros(3))
        g.cell_centers = pt.copy().view(SymArr)
        g.nodes = pt.copy().view(SymArr)
        z = np.empty(nz + 1, dtype=object)
        for i, v in enumerate(zs):
            z[i] = v
        gn, cell_map, face_map = pp.grid_extrusion.extrude_grid(g, z.view(SymArr))
        V = np.asarray(gn.cell_volumes, dtype=object)
        ctx.check("cell-count", gn.dim == 1 and gn.num_cells == nz, case)
        ctx.check("total-measure-is-height", z3.Sum([lift(v) for v in V.tolist()]) == lift(zs[-1]), case)
        for c in range(gn.num_cells):
            ctx.check("new-cells-have-positive-measure", lift(V[c]) > 0, case)
            ctx.check("new-cells-above-the-point", z3.And(lift(gn.cell_centers[0, c]) == lift(px), lift(gn.cell_centers[1, c]) == lift(py)), case)
        ctx.check("cell-map-assigns-each-new-cell-once",
                  sorted(int(c) for c in np.asarray(cell_map[0]).ravel().tolist()) == list(range(gn.num_cells)), case)
    else:
        raise ValueError(kind)
    m = ctx.reach("end")
    if m is not None:
        ctx.validate_replay("float-run", case, model=m)
    ctx.sample({"shard": shard, "path": ctx.idx})


def run_shard(ex, shard):
    ex.run(harness, label=str(shard), args=(shard,))


# ---------------------------------------------------------------- real-code side


def concrete_run(case):
    raise NotImplementedError


def replay_case(case):
    import porepy as pp

    shard = case["shard"]
    kind = shard["kind"]
    problems = []
    if kind in ("refine1d", "remesh1d", "extrude1d"):
        x = np.array(case["x"], dtype=float)
        if shard.get("node_perm") is not None or shard.get("face_perm") is not None:
            g, node_perm, _ = _numbered_line_grid(list(range(x.size)), shard.get("node_perm"), shard.get("cell_perm"),
                                                  shard.get("face_perm"))
            for k in range(x.size):
                g.nodes[0, node_perm[k]] = x[k]
        else:
            g = pp.TensorGrid(x)
        g.compute_geometry()
    if kind == "refine1d":
        gn = pp.refinement.refine_grid_1d(g, ratio=shard["ratio"])
        if gn.num_cells != shard["ratio"] * g.num_cells:
            problems.append("cell count")
        if abs(gn.cell_volumes.sum() - (x[-1] - x[0])) > 1e-10:
            problems.append(f"total measure {gn.cell_volumes.sum()} != {x[-1] - x[0]}")
        cn = gn.cell_nodes().tocsc()
        fill = np.zeros(g.num_cells)
        for c in range(gn.num_cells):
            xs_c = sorted(gn.nodes[0, cn.indices[cn.indptr[c]:cn.indptr[c + 1]]])
            if len(xs_c) != 2:
                problems.append(f"new cell {c} has {len(xs_c)} node(s)")
                continue
            xa, xb = xs_c
            ks = [k for k in range(g.num_cells) if xa >= x[k] - 1e-12 and xb <= x[k + 1] + 1e-12]
            if len(ks) != 1:
                problems.append(f"new cell [{xa}, {xb}] lies in {len(ks)} old cells")
            else:
                fill[ks[0]] += gn.cell_volumes[c]
        if not np.allclose(fill, np.diff(x), atol=1e-10):
            problems.append(f"children fill {fill.tolist()} of {np.diff(x).tolist()}")
    elif kind == "remesh1d":
        gn = pp.refinement.remesh_1d(g, shard["num_nodes"])
        if gn.num_cells != shard["num_nodes"] - 1 or abs(gn.cell_volumes.sum() - (x[-1] - x[0])) > 1e-10:
            problems.append(f"cells {gn.num_cells}, total measure {gn.cell_volumes.sum()} vs {x[-1] - x[0]}")
        if gn.nodes[0].min() < x[0] - 1e-12 or gn.nodes[0].max() > x[-1] + 1e-12:
            problems.append("nodes outside the old line")
    elif kind == "refine_tri":
        nt = shard["nt"]
        if nt == 0:
            g = pp.StructuredTriangleGrid(shard["dims"])
            for i, dv in zip(shard["nodes"], case["d"]):
                g.nodes[0, i] += dv[0]
                g.nodes[1, i] += dv[1]
            cn = pp.StructuredTriangleGrid(shard["dims"]).cell_nodes().tocsc()
            tri = cn.indices.reshape((3, g.num_cells), order="F")
        else:
            ref = np.array([[0.0, 1.0, 0.0, 1.0], [0.0, 0.0, 1.0, 1.0]])[:, : (3 if nt == 1 else 4)]
            tri = np.array([[0, 1, 2]]).T if nt == 1 else np.array([[0, 1, 2], [1, 3, 2]]).T
            p = ref + np.array(case["d"], dtype=float).T
            g = pp.TriangleGrid(np.vstack([p, np.zeros(p.shape[1])]), tri=tri)
        g.compute_geometry()
        gn, parent = pp.refinement.refine_triangle_grid(g)
        gn.compute_geometry()
        if gn.num_cells != 4 * g.num_cells:
            problems.append("cell count")
        for k in range(g.num_cells):
            ch = np.where(parent == k)[0]
            if ch.size != 4 or abs(gn.cell_volumes[ch].sum() - g.cell_volumes[k]) > 1e-10:
                problems.append(f"children of {k}: {ch.tolist()} with volume {gn.cell_volumes[ch].sum()} vs {g.cell_volumes[k]}")
            poly = g.nodes[:2, tri[:, k]]
            for c in ch:
                if not pp.geometry_property_checks.point_in_polygon(poly, gn.cell_centers[:2, c])[0]:
                    problems.append(f"child {c} centre outside parent {k}")
    elif kind == "extrude1d":
        z = np.array([0.0] + list(case["z"]), dtype=float)
        gn, cell_map, _ = pp.grid_extrusion.extrude_grid(g, z)
        if abs(gn.cell_volumes.sum() - (x[-1] - x[0]) * z[-1]) > 1e-10:
            problems.append(f"total measure {gn.cell_volumes.sum()} vs {(x[-1] - x[0]) * z[-1]}")
        seen = []
        for k in range(g.num_cells):
            ch = np.asarray(cell_map[k]).ravel()
            seen += ch.tolist()
            if abs(gn.cell_volumes[ch].sum() - (x[k + 1] - x[k]) * z[-1]) > 1e-10:
                problems.append(f"children of {k} have measure {gn.cell_volumes[ch].sum()}")
            if not np.all((gn.cell_centers[0, ch] > x[k]) & (gn.cell_centers[0, ch] < x[k + 1])):
                problems.append(f"children of {k} not above it")
        if sorted(seen) != list(range(gn.num_cells)):
            problems.append("cell map is not a partition")
    elif kind == "extrude0d":
        z = np.array([0.0] + list(case["z"]), dtype=float)
        g0 = pp.PointGrid(np.array([case["p"][0], case["p"][1], 0.0]))
        g0.compute_geometry()
        gn, cell_map, _ = pp.grid_extrusion.extrude_grid(g0, z)
        if abs(gn.cell_volumes.sum() - z[-1]) > 1e-10 or not np.all(gn.cell_volumes > 0):
            problems.append(f"volumes {gn.cell_volumes.tolist()} vs height {z[-1]}")
    if problems:
        return True, f"{shard} at {[(k, v) for k, v in case.items() if k != 'shard']}: {problems[:3]}"
    return False, "preserved"
