"""C35 — sparse-matrix utilities match dense reference semantics.

Sparsity patterns, formats and index sets are enumerated / drawn from a seeded generator (case
split, stated bound); the stored VALUES are symbolic reals, and z3 decides entry-wise equality of
what the real utilities return with the equivalent dense numpy operation on the same symbols
(explicitly stored entries included: every structural position carries its own symbol).
"""
from __future__ import annotations

import itertools
import random

import numpy as np
import scipy.sparse as sps
import z3

from ..adutil import dense
from ..arr import SymArr
from ..sparse import SymSparse
from ..sym import SReal, lift

PID = "C35"
TARGET_PREFIXES = ("numerics/linalg/matrix_operations", "utils/array_operations")

META = {
    "explanation": "zero_rows/zero_columns, merge_matrices, stack_mat, stack_diag, slice_indices, "
                   "slice_sparse_matrix, cs{r,c}_matrix_from_sparse_blocks, cs{r,c}_matrix_from_dense_blocks, "
                   "sparse_kronecker_product, rldecode and rlencode (with expand_index_pointers underneath) "
                   "executed on matrices / arrays with symbolic values vs the dense numpy operation",
    "assumptions": ["floats as exact reals", "lines_to_replace of merge_matrices duplicate-free (duplicates are rejected by the code), any order",
                    "index sets in range"],
    "stubs": ["sparse matrices with symbolic data -> SymSparse (dense-backed, concrete pattern, canonical "
              "sorted compressed arrays; in-place assignment of indptr/indices/data/_shape is re-assembled "
              "into the dense store)", "sps.kron -> np.kron on the dense stores"],
    "outside": ["unsorted / duplicated indices in the compressed storage of the INPUT", "patterns and index sets "
                "beyond the stated sizes", "sparse_dia_from_sparse_blocks (dia storage is not modelled)",
                "block_diag_index / invert_diagonal_blocks (C37)", "ArraySlicer (C36)",
                "expand_indices_nd, optimized_compressed_storage (integer / dtype bookkeeping only)"],
}


# ------------------------------------------------------------------ case generation


def _patterns(rnd, m, n, count):
    """Boolean masks of shape (m, n): empty, full, one empty row and column, random."""
    out = [np.zeros((m, n), bool), np.ones((m, n), bool)]
    p = np.ones((m, n), bool)
    p[rnd.randrange(m), :] = False
    p[:, rnd.randrange(n)] = False
    out.append(p)
    while len(out) < count:
        out.append(np.array([[rnd.random() < 0.55 for _ in range(n)] for _ in range(m)], bool))
    return [p.astype(int).tolist() for p in out[:count]]


def _subsets(rnd, n, count, ordered=True, repeats=False):
    out = [[], list(range(n))]
    while len(out) < count:
        k = rnd.randint(1, n)
        s = [rnd.randrange(n) for _ in range(k)] if repeats else rnd.sample(range(n), k)
        out.append(sorted(set(s)) if ordered else s)
    return out


def _cases(tier, seed):
    rnd = random.Random(3500 + seed)
    big = tier != "quick"
    shapes = [(2, 3), (3, 2), (3, 3)] + ([(4, 3), (1, 4), (4, 4)] if big else [])
    npat = 6 if big else 4
    nsub = 6 if big else 4
    out = []
    for (m, n) in shapes:
        for fmt in ("csr", "csc"):
            nmaj = m if fmt == "csr" else n
            nmin = n if fmt == "csr" else m
            for P in _patterns(rnd, m, n, npat):
                for lines in _subsets(rnd, nmaj, nsub):
                    out.append({"kind": "zero", "fmt": fmt, "P": P, "lines": lines})
                    k = len(lines)
                    if k:
                        shp = (k, n) if fmt == "csr" else (m, k)
                        Q = _patterns(rnd, shp[0], shp[1], 4)[rnd.randrange(4)]
                        out.append({"kind": "merge", "fmt": fmt, "P": P, "Q": Q, "lines": lines})
                        if k > 1:
                            # the same replacement with the lines given in another order (A[lines] = B semantics)
                            perm = lines[:]
                            while perm == lines:
                                rnd.shuffle(perm)
                            out.append({"kind": "merge", "fmt": fmt, "P": P, "Q": Q, "lines": perm})
                for ind in _subsets(rnd, nmaj, nsub, ordered=False, repeats=True)[1:]:
                    for how in ("array", "bool", "int", "npint"):
                        if how == "bool":
                            ind2 = sorted(set(ind))
                        elif how in ("int", "npint"):
                            ind2 = ind[:1]
                        else:
                            ind2 = ind
                        out.append({"kind": "slice", "fmt": fmt, "P": P, "ind": ind2, "how": how})
                # stacking: B with the same minor dimension
                k = rnd.randint(0, 2)
                shp = (k, n) if fmt == "csr" else (m, k)
                Q = (np.array(_patterns(rnd, max(shp[0], 1), max(shp[1], 1), 4)[rnd.randrange(4)])
                     [:shp[0], :shp[1]].reshape(shp).tolist())
                out.append({"kind": "stack_mat", "fmt": fmt, "P": P, "Q": Q})
                m2, n2 = rnd.randint(1, 2), rnd.randint(1, 2)
                Q2 = _patterns(rnd, m2, n2, 4)[rnd.randrange(4)]
                out.append({"kind": "stack_diag", "fmt": fmt, "P": P, "Q": Q2})
                out.append({"kind": "kron", "fmt": fmt, "P": P, "nd": rnd.choice([1, 2, 3])})
    # block-diagonal construction from sparse blocks (mixed input formats) and from dense data
    for nb in (1, 2, 3):
        for rep in range(4 if big else 2):
            blocks = []
            for b in range(nb):
                m, n = rnd.randint(1, 2 + big), rnd.randint(1, 2 + big)
                blocks.append({"P": _patterns(rnd, m, n, 4)[rnd.randrange(4)], "fmt": rnd.choice(["csr", "csc", "coo"])})
            for fmt in ("csr", "csc"):
                out.append({"kind": "sparse_blocks", "fmt": fmt, "blocks": blocks})
    for bs in (1, 2, 3):
        for nb in (1, 2, 3) if big else (1, 2):
            for fmt in ("csr", "csc"):
                out.append({"kind": "dense_blocks", "fmt": fmt, "bs": bs, "nb": nb})
    # run-length decoding / encoding
    for L in (1, 2, 3, 4):
        for cnt in itertools.product((0, 1, 2, 3) if big else (0, 1, 2), repeat=L):
            if sum(cnt) == 0 or sum(cnt) > (7 if big else 5):
                continue
            out.append({"kind": "rldecode", "n": list(cnt), "rows": 1})
            if (sum(cnt) + L) % 3 == 0:
                out.append({"kind": "rldecode", "n": list(cnt), "rows": 2})
            if (sum(cnt) + L) % 4 == 0:
                # more values than counts (extract_subgrid calls it that way): the surplus is ignored
                out.append({"kind": "rldecode", "n": list(cnt), "rows": 1, "extra": 2})
    for rows in (1, 2):
        for cols in (1, 2, 3, 4) if big else (1, 2, 3):
            out.append({"kind": "rlencode", "rows": rows, "cols": cols})
    return out


def shards(tier, seed):
    cs = _cases(tier, seed)
    k = 8 if tier == "quick" else 16
    return [{"cases": cs[i::k]} for i in range(k)]


def configure(cfg, tier):
    cfg.incremental_first = True


# ------------------------------------------------------------------ symbolic side


def _sym_matrix(ctx, tag, P, fmt):
    P = np.array(P, dtype=bool)
    if P.ndim != 2:
        P = P.reshape((0, 0))
    D = np.empty(P.shape, dtype=object)
    D.fill(0)
    for i, j in zip(*np.nonzero(P)):
        D[i, j] = ctx.real(f"{tag}_{i}_{j}")
    return SymSparse(D.copy(), fmt, P.copy()), D


def _check_equal(ctx, name, got, exp, case):
    g = np.asarray(got, dtype=object)
    e = np.asarray(exp, dtype=object)
    ctx.check(f"shape[{name}]", g.shape == e.shape, case)
    if g.shape != e.shape:
        return
    for idx in np.ndindex(*g.shape):
        a, b = g[idx], e[idx]
        if not isinstance(a, SReal) and not isinstance(b, SReal):
            ctx.check(f"entry[{name}]", bool(a == b), case)
        else:
            ctx.check(f"entry[{name}]", lift(a) == lift(b), case)


def _block_diag(mats):
    R = sum(m.shape[0] for m in mats)
    C = sum(m.shape[1] for m in mats)
    D = np.empty((R, C), dtype=object)
    D.fill(0)
    r = c = 0
    for m in mats:
        D[r:r + m.shape[0], c:c + m.shape[1]] = m
        r += m.shape[0]
        c += m.shape[1]
    return D


def _index_arg(c, nmaj):
    how, ind = c["how"], c["ind"]
    if how == "array":
        return np.array(ind, dtype=int)
    if how == "bool":
        b = np.zeros(nmaj, dtype=bool)
        b[ind] = True
        return b
    if how == "int":
        return int(ind[0])
    return np.int64(ind[0])


def harness(ctx, c):
    import porepy as pp

    mo = pp.matrix_operations
    kind = c["kind"]
    inputs = {"case": c}

    def case(conc):
        return _json(conc(inputs))

    if kind in ("zero", "merge", "slice", "stack_mat", "stack_diag", "kron"):
        fmt = c["fmt"]
        A, DA = _sym_matrix(ctx, "a", c["P"], fmt)
        inputs["A"] = DA.copy()
        csr = fmt == "csr"
        if kind == "zero":
            lines = np.array(c["lines"], dtype=int)
            (mo.zero_rows if csr else mo.zero_columns)(A, lines)
            exp = DA.copy()
            if csr:
                exp[lines, :] = 0
            else:
                exp[:, lines] = 0
            _check_equal(ctx, f"zero-{fmt}", dense(A), exp, case)
            ctx.check("zeroing-keeps-the-sparsity-structure", bool(np.array_equal(A.M_, np.array(c["P"], bool))), case)
        elif kind == "merge":
            B, DB = _sym_matrix(ctx, "b", c["Q"], fmt)
            inputs["B"] = DB.copy()
            lines = np.array(c["lines"], dtype=int)
            mo.merge_matrices(A, B, lines, fmt)
            exp = DA.copy()
            if csr:
                exp[lines, :] = DB
            else:
                exp[:, lines] = DB
            _check_equal(ctx, f"merge-{fmt}", dense(A), exp, case)
        elif kind == "slice":
            nmaj = DA.shape[0] if csr else DA.shape[1]
            ind = _index_arg(c, nmaj)
            S = mo.slice_sparse_matrix(A, ind)
            sel = np.array(c["ind"], dtype=int)
            exp = DA[sel, :] if csr else DA[:, sel]
            ctx.check("slice-keeps-the-format", S.getformat() == fmt, case)
            _check_equal(ctx, f"slice-{fmt}-{c['how']}", dense(S), exp, case)
            # slice_indices: minor indices of the stored entries of the slice + their storage positions
            A2, _ = _sym_matrix(ctx, "a", c["P"], fmt)
            indices, aind = mo.slice_indices(A2, _index_arg(c, nmaj), return_array_ind=True)
            only = mo.slice_indices(A2, _index_arg(c, nmaj))
            P = np.array(c["P"], bool)
            exp_minor, exp_vals = [], []
            for l in sel:
                minor = np.flatnonzero(P[l, :] if csr else P[:, l])
                exp_minor.extend(minor.tolist())
                exp_vals.extend([(DA[l, q] if csr else DA[q, l]) for q in minor])
            ctx.check("slice_indices-minor-indices", np.asarray(indices).tolist() == exp_minor
                      and np.asarray(only).tolist() == exp_minor, case)
            ctx.check("slice_indices-storage-positions-address-the-slice",
                      np.asarray(A2.indices[aind]).tolist() == exp_minor, case)
            _check_equal(ctx, "slice_indices-data", np.asarray(A2.data[aind], dtype=object).ravel(),
                         np.array(exp_vals + [0], dtype=object)[:-1], case)
        elif kind == "stack_mat":
            B, DB = _sym_matrix(ctx, "b", c["Q"], fmt)
            DB = DB.reshape((len(c["Q"]), DA.shape[1]) if csr else (DA.shape[0], -1))
            B = SymSparse(DB.copy(), fmt, np.array(c["Q"], bool).reshape(DB.shape))
            inputs["B"] = DB.copy()
            mo.stack_mat(A, B)
            exp = np.vstack([DA, DB]) if csr else np.hstack([DA, DB])
            _check_equal(ctx, f"stack_mat-{fmt}", dense(A), exp, case)
        elif kind == "stack_diag":
            B, DB = _sym_matrix(ctx, "b", c["Q"], fmt)
            inputs["B"] = DB.copy()
            C = mo.stack_diag(A, B)
            _check_equal(ctx, f"stack_diag-{fmt}", dense(C), _block_diag([DA, DB]), case)
            _check_equal(ctx, "stack_diag-leaves-A-unchanged", dense(A), DA, case)
        elif kind == "kron":
            K = mo.sparse_kronecker_product(A, c["nd"])
            exp = np.kron(DA, np.eye(c["nd"], dtype=int).astype(object)) if DA.size else np.zeros(
                (DA.shape[0] * c["nd"], DA.shape[1] * c["nd"]), dtype=object)
            _check_equal(ctx, "kron", dense(K), exp, case)
    elif kind == "sparse_blocks":
        mats, dens = [], []
        for b, blk in enumerate(c["blocks"]):
            M, D = _sym_matrix(ctx, f"b{b}", blk["P"], blk["fmt"])
            mats.append(M)
            dens.append(D)
        inputs["blocks"] = [d.copy() for d in dens]
        f = mo.csr_matrix_from_sparse_blocks if c["fmt"] == "csr" else mo.csc_matrix_from_sparse_blocks
        R = f(mats)
        ctx.check("blocks-result-format", R.getformat() == c["fmt"], case)
        _check_equal(ctx, f"sparse-blocks-{c['fmt']}", dense(R), _block_diag(dens), case)
    elif kind == "dense_blocks":
        bs, nb = c["bs"], c["nb"]
        data = ctx.reals("d", bs * bs * nb)
        inputs["data"] = data
        f = mo.csr_matrix_from_dense_blocks if c["fmt"] == "csr" else mo.csc_matrix_from_dense_blocks
        R = f(data, bs, nb)
        blocks = []
        for b in range(nb):
            blk = np.asarray(data[b * bs * bs:(b + 1) * bs * bs], dtype=object).reshape((bs, bs))
            blocks.append(blk if c["fmt"] == "csr" else blk.T)   # row-wise for csr, column-wise for csc
        _check_equal(ctx, f"dense-blocks-{c['fmt']}", dense(R), _block_diag(blocks), case)
    elif kind == "rldecode":
        n = np.array(c["n"], dtype=int)
        L = len(n)
        A = ctx.reals("a", L + c.get("extra", 0)) if c["rows"] == 1 else ctx.reals("a", (L, 2))
        inputs["A"] = A
        B = mo.rldecode(A, n)
        exp = np.repeat(np.asarray(A, dtype=object)[:L], n, axis=0)
        _check_equal(ctx, "rldecode-equals-np.repeat", B, exp, case)
    elif kind == "rlencode":
        A = ctx.reals("a", (c["rows"], c["cols"]), -2, 2)
        inputs["A"] = A
        Ac, num = mo.rlencode(A)
        num = np.asarray(num).astype(int)
        ctx.check("rlencode-counts-positive-and-complete", bool(np.all(num > 0)) and int(num.sum()) == c["cols"]
                  and np.asarray(Ac).shape == (c["rows"], len(num)), case)
        if bool(np.all(num > 0)) and int(num.sum()) == c["cols"] and np.asarray(Ac).shape == (c["rows"], len(num)):
            exp = np.repeat(np.asarray(Ac, dtype=object), num, axis=1)
            _check_equal(ctx, "repeat(rlencode)-restores-the-array", exp, A, case)
            # maximal compression: neighbouring compressed columns differ
            Ao = np.asarray(Ac, dtype=object)
            for j in range(len(num) - 1):
                ctx.check("rlencode-neighbouring-columns-differ",
                          z3.Or([lift(Ao[i, j]) != lift(Ao[i, j + 1]) for i in range(c["rows"])]), case)
    else:
        raise ValueError(kind)
    m = ctx.reach("end")
    if m is not None:
        ctx.validate_replay("float-run", case, model=m)
    if ctx.rep.paths % 53 == 0:
        ctx.sample({"case": c})


def run_shard(ex, shard):
    for c in shard["cases"]:
        ex.run(harness, label=str(c), args=(c,))


def _json(c):
    if isinstance(c, dict):
        return {k: _json(v) for k, v in c.items()}
    if isinstance(c, np.ndarray):
        return c.tolist()
    if isinstance(c, (list, tuple)):
        return [_json(v) for v in c]
    if isinstance(c, (np.integer,)):
        return int(c)
    if isinstance(c, (np.bool_,)):
        return bool(c)
    return c


# ---------------------------------------------------------------- real-code side


def _real(D, P, fmt):
    """Real scipy matrix with the stored pattern P (explicit zeros kept) and values D."""
    D = np.array(D, dtype=float).reshape(np.array(P).shape if np.array(P).ndim == 2 else (0, 0))
    P = np.array(P, dtype=bool).reshape(D.shape)
    r, cc = np.nonzero(P)
    M = sps.coo_matrix((D[r, cc], (r, cc)), shape=D.shape)
    return M.asformat(fmt), np.where(P, D, 0.0)


def concrete_run(case):
    raise NotImplementedError


def replay_case(case):
    """Runs the real utilities on the float instance; returns (violated, message)."""
    import porepy as pp

    mo = pp.matrix_operations
    c = case["case"]
    kind = c["kind"]

    def neq(a, b):
        a, b = np.asarray(a, dtype=float), np.asarray(b, dtype=float)
        return a.shape != b.shape or not np.array_equal(a, b)

    if kind in ("zero", "merge", "slice", "stack_mat", "stack_diag", "kron"):
        fmt = c["fmt"]
        csr = fmt == "csr"
        A, DA = _real(case["A"], c["P"], fmt)
        if kind == "zero":
            lines = np.array(c["lines"], dtype=int)
            (mo.zero_rows if csr else mo.zero_columns)(A, lines)
            exp = DA.copy()
            if csr:
                exp[lines, :] = 0
            else:
                exp[:, lines] = 0
            bad = neq(A.toarray(), exp)
        elif kind == "merge":
            B, DB = _real(case["B"], c["Q"], fmt)
            lines = np.array(c["lines"], dtype=int)
            mo.merge_matrices(A, B, lines, fmt)
            exp = DA.copy()
            if csr:
                exp[lines, :] = DB
            else:
                exp[:, lines] = DB
            bad = neq(A.toarray(), exp)
        elif kind == "slice":
            nmaj = DA.shape[0] if csr else DA.shape[1]
            S = mo.slice_sparse_matrix(A, _index_arg(c, nmaj))
            sel = np.array(c["ind"], dtype=int)
            exp = DA[sel, :] if csr else DA[:, sel]
            bad = neq(S.toarray(), exp) or S.getformat() != fmt
            indices, aind = mo.slice_indices(A, _index_arg(c, nmaj), return_array_ind=True)
            P = np.array(c["P"], bool)
            em, ev = [], []
            for l in sel:
                minor = np.flatnonzero(P[l, :] if csr else P[:, l])
                em.extend(minor.tolist())
                ev.extend([(DA[l, q] if csr else DA[q, l]) for q in minor])
            bad = bad or np.asarray(indices).tolist() != em or np.asarray(A.indices[aind]).tolist() != em \
                or np.asarray(A.data[aind]).tolist() != ev
        elif kind == "stack_mat":
            shp = (len(c["Q"]), DA.shape[1]) if csr else (DA.shape[0], -1)
            DBf = np.array(case["B"], dtype=float).reshape(shp)
            Pq = np.array(c["Q"], bool).reshape(DBf.shape)
            r, cc = np.nonzero(Pq)
            B = sps.coo_matrix((DBf[r, cc], (r, cc)), shape=DBf.shape).asformat(fmt)
            mo.stack_mat(A, B)
            DB = np.where(Pq, DBf, 0.0)
            exp = np.vstack([DA, DB]) if csr else np.hstack([DA, DB])
            bad = neq(A.toarray(), exp)
        elif kind == "stack_diag":
            B, DB = _real(case["B"], c["Q"], fmt)
            C = mo.stack_diag(A, B)
            bad = neq(C.toarray(), np.asarray(sps.block_diag([DA, DB]).toarray())) or neq(A.toarray(), DA)
        else:
            K = mo.sparse_kronecker_product(A, c["nd"])
            bad = neq(K.toarray(), np.kron(DA, np.eye(c["nd"])))
        return (True, f"{c}: result differs from the dense operation") if bad else (False, "equal")
    if kind == "sparse_blocks":
        mats, dens = [], []
        for blk, D in zip(c["blocks"], case["blocks"]):
            M, DD = _real(D, blk["P"], blk["fmt"])
            mats.append(M)
            dens.append(DD)
        f = mo.csr_matrix_from_sparse_blocks if c["fmt"] == "csr" else mo.csc_matrix_from_sparse_blocks
        R = f(mats)
        bad = neq(R.toarray(), _block_diag(dens).astype(float)) or R.getformat() != c["fmt"]
        return (True, f"{c}: block matrix differs from block_diag") if bad else (False, "equal")
    if kind == "dense_blocks":
        bs, nb = c["bs"], c["nb"]
        data = np.array(case["data"], dtype=float)
        f = mo.csr_matrix_from_dense_blocks if c["fmt"] == "csr" else mo.csc_matrix_from_dense_blocks
        R = f(data, bs, nb)
        blocks = [data[b * bs * bs:(b + 1) * bs * bs].reshape((bs, bs)) for b in range(nb)]
        if c["fmt"] == "csc":
            blocks = [b.T for b in blocks]
        bad = neq(R.toarray(), _block_diag(blocks).astype(float))
        return (True, f"{c}: block matrix differs from block_diag") if bad else (False, "equal")
    if kind == "rldecode":
        A = np.array(case["A"], dtype=float)
        n = np.array(c["n"], dtype=int)
        try:
            B = mo.rldecode(A, n)
        except Exception as e:  # noqa: BLE001
            return True, f"rldecode({A.tolist()}, {n.tolist()}) raised {type(e).__name__}: {e}"
        bad = neq(B, np.repeat(A[:len(n)], n, axis=0))
        return (True, f"rldecode({A.tolist()}, {n.tolist()}) = {np.asarray(B).tolist()} != np.repeat = "
                      f"{np.repeat(A[:len(n)], n, axis=0).tolist()}") if bad else (False, "equal")
    if kind == "rlencode":
        A = np.array(case["A"], dtype=float)
        Ac, num = mo.rlencode(A)
        bad = (not np.all(num > 0)) or neq(np.repeat(Ac, num, axis=1), A) or any(
            np.array_equal(Ac[:, j], Ac[:, j + 1]) for j in range(Ac.shape[1] - 1))
        return (True, f"rlencode({A.tolist()}) = {Ac.tolist()}, {num.tolist()}") if bad else (False, "equal")
    raise ValueError(kind)
