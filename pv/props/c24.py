"""C24 — the mixed-dimensional grid container stays consistent under any history (case split on
operations; grid and interface ids are SYMBOLIC integers, so the sortedness / uniqueness
obligations are decided for every id order, including arbitrary creation orders)."""
from __future__ import annotations

import itertools
import random

import numpy as np
import z3

from ..sym import SInt, lift

PID = "C24"
TARGET_PREFIXES = ("grids/md_grid",)

META = {
    "explanation": "MixedDimensionalGrid.add_subdomains/add_interface/remove_subdomain/replace_subdomains_and_interfaces/"
                   "subdomains/interfaces/boundaries/argsort_grids/interface_to_subdomain_pair/"
                   "subdomain_pair_to_interface/subdomain_to_boundary_grid under enumerated operation histories "
                   "with symbolic (distinct) grid ids",
    "assumptions": ["grids and mortar grids are the real objects of a 2-fracture Cartesian md-grid (dims 2,1,1,0; "
                    "4 interfaces plus one co-dimension-2 coupling between the matrix and the intersection point); their ids are replaced by distinct symbolic integers",
                    "histories of length <= 5 (quick: sampled) over add-subdomain / add-interface / remove / replace"],
    "stubs": ["Grid.id / MortarGrid.id / BoundaryGrid.id hold symbolic integers (attribute assignment)"],
    "outside": ["3-d subdomains", "replacement of a subdomain that has interfaces attached (re-matching of mortar "
                "geometry, C26)", "boundaries() on a container holding only 0-d subdomains (raises by design)"],
}

_BASE = {}


def _base():
    if _BASE:
        return _BASE
    import porepy as pp

    mdg, _ = pp.mdg_library.square_with_orthogonal_fractures("cartesian", {"cell_size": 0.5}, fracture_indices=[0, 1])
    sds = mdg.subdomains()
    intfs = mdg.interfaces()
    pairs = [mdg.interface_to_subdomain_pair(i) for i in intfs]
    maps = [mdg.interface_data(i)["face_cells"] for i in intfs]
    pairs = [(sds.index(a), sds.index(b)) for a, b in pairs]
    # a co-dimension-2 coupling (matrix -- intersection point), as add_interface allows: a 0-d mortar grid
    # (copy of an existing one) between the 2-d grid and the 0-d grid
    import copy as _copy

    import scipy.sparse as sps_

    i2 = [k for k, g in enumerate(sds) if g.dim == 2][0]
    i0 = [k for k, g in enumerate(sds) if g.dim == 0][0]
    m0 = [m for m in intfs if m.dim == 0][0]
    intfs = list(intfs) + [_copy.copy(m0)]
    pairs.append((i2, i0))
    maps.append(sps_.csc_matrix(([True], ([0], [0])), shape=(sds[i0].num_cells, sds[i2].num_faces)))
    _BASE.update(sds=sds, intfs=intfs, pairs=pairs, maps=maps)
    return _BASE


def _histories(L):
    """Feasible operation sequences: ('as', i) add subdomain i, ('ai', j) add interface j,
    ('rm', i) remove subdomain i, ('rp', i) replace subdomain i by a copy."""
    b = _base()
    ns, ni = len(b["sds"]), len(b["intfs"])
    out = []

    def rec(h, present, ipresent):
        if h:
            out.append(list(h))
        if len(h) == L:
            return
        for i in range(ns):
            if i not in present:
                rec(h + [("as", i)], present | {i}, ipresent)
        for j in range(ni):
            a, c = b["pairs"][j]
            if j not in ipresent and a in present and c in present:
                rec(h + [("ai", j)], present, ipresent | {j})
        for i in present:
            gone = {j for j in ipresent if i in b["pairs"][j]}
            rec(h + [("rm", i)], present - {i}, ipresent - gone)
        for i in present:
            # replacement with attached interfaces re-matches the mortar geometry (C26): outside
            if len(h) >= 1 and not any(i in b["pairs"][j] for j in ipresent):
                rec(h + [("rp", i)], present, ipresent)

    rec([], frozenset(), frozenset())
    return out


def shards(tier, seed):
    hs = _histories(3)
    rnd = random.Random(24 + seed)
    longer = _histories(4 if tier == "quick" else 5)
    longer = [h for h in longer if len(h) >= 4]
    rnd.shuffle(longer)
    hs += longer[: (250 if tier == "quick" else 4000)]
    # always: add both subdomains of every interface, add the interface, remove either side
    b = _base()
    for j, (a, c) in enumerate(b["pairs"]):
        for first, second in ((a, c), (c, a)):
            for gone in (a, c):
                hs.append([("as", first), ("as", second), ("ai", j), ("rm", gone)])
    k = 8 if tier == "quick" else 16
    return [{"hists": hs[i::k]} for i in range(k)]


def configure(cfg, tier):
    cfg.incremental_first = True
    cfg.max_paths = 200


def harness(ctx, hist):
    import porepy as pp

    b = _base()
    ns, ni = len(b["sds"]), len(b["intfs"])
    # fresh objects per path (copies keep geometry); ids: distinct symbolic integers
    sds = [g.copy() for g in b["sds"]]
    sid = [ctx.int(f"sid{i}", 0, 40) for i in range(ns)]
    rid = [ctx.int(f"rid{i}", 0, 40) for i in range(ns)]       # ids of replacement copies
    ctx.assume(z3.Distinct(*[x.e for x in sid + rid]))
    for g, s in zip(sds, sid):
        g._Grid__id = s
    intfs = []
    iid = [ctx.int(f"iid{j}", 0, 40) for j in range(ni)]
    ctx.assume(z3.Distinct(*[x.e for x in iid]))

    def case(conc):
        c = conc({"sid": sid, "rid": rid, "iid": iid})
        return {"hist": [list(o) for o in hist], **{k: [int(v) for v in vals] for k, vals in c.items()}}

    mdg = pp.MixedDimensionalGrid()
    present = {}       # index -> grid object currently in the container
    ipresent = {}      # interface index -> mortar grid
    import copy as _copy

    from ..sym import PathAbort

    for op, i in hist:
        try:
            if op == "as":
                mdg.add_subdomains(sds[i])
                present[i] = sds[i]
            elif op == "ai":
                a, c = b["pairs"][i]
                mg = _copy.copy(b["intfs"][i])
                mg._MortarGrid__id = iid[i]
                mdg.add_interface(mg, (present[c], present[a]) if i % 2 else (present[a], present[c]), b["maps"][i])
                ipresent[i] = mg
            elif op == "rm":
                mdg.remove_subdomain(present[i])
                del present[i]
                for j in [j for j in ipresent if i in b["pairs"][j]]:
                    del ipresent[j]
            elif op == "rp":
                new = present[i].copy()
                new._Grid__id = rid[i]
                mdg.replace_subdomains_and_interfaces(sd_map={present[i]: new})
                present[i] = new
        except PathAbort:
            raise
        except Exception as e:  # noqa: BLE001  (an admissible operation must not raise)
            ctx.check(f"operation-does-not-raise[{op}:{type(e).__name__}]", False, case)
            break
        _invariants(ctx, mdg, present, ipresent, b, case)
    m = ctx.reach("end")
    if m is not None and ctx.rep.paths % 11 == 0:
        ctx.validate_replay("float-run", case, model=m)
    if ctx.idx == 0 and ctx.rep.paths % 37 == 0:
        ctx.sample({"history": [list(o) for o in hist], "subdomains": len(present), "interfaces": len(ipresent)})


def _invariants(ctx, mdg, present, ipresent, b, case):
    lst = mdg.subdomains()
    ctx.check("subdomains-each-once", len(lst) == len(present) and {id(g) for g in lst} == {id(g) for g in present.values()}, case)
    for x, y in zip(lst, lst[1:]):
        if x.dim == y.dim:
            ctx.check("subdomains-sorted-by-id-within-dimension", lift(x.id) < lift(y.id), case)
        else:
            ctx.check("subdomains-sorted-by-decreasing-dimension", x.dim > y.dim, case)
    il = mdg.interfaces()
    ctx.check("interfaces-each-once", len(il) == len(ipresent) and {id(g) for g in il} == {id(g) for g in ipresent.values()}, case)
    for x, y in zip(il, il[1:]):
        if x.dim == y.dim:
            ctx.check("interfaces-sorted-by-id-within-dimension", lift(x.id) < lift(y.id), case)
        else:
            ctx.check("interfaces-sorted-by-decreasing-dimension", x.dim > y.dim, case)
    for j, mg in ipresent.items():
        a, c = b["pairs"][j]
        hi, lo = mdg.interface_to_subdomain_pair(mg)
        ctx.check("interface-pair-is-(higher,lower)", hi is present[a] and lo is present[c], case)
        ctx.check("pair-to-interface-inverse", mdg.subdomain_pair_to_interface((hi, lo)) is mg, case)
    for i, g in present.items():
        nb = [mg for j, mg in ipresent.items() if i in b["pairs"][j]]
        got = mdg.subdomain_to_interfaces(g)
        ctx.check("subdomain-to-interfaces", {id(x) for x in got} == {id(x) for x in nb}, case)
        bg = mdg.subdomain_to_boundary_grid(g)
        if g.dim > 0:
            ctx.check("one-boundary-grid-per-positive-dim-subdomain", bg is not None and bg.parent is g, case)
    # (boundaries() deliberately raises when only 0-d subdomains are present; not part of the property)
    nbg = len(mdg.boundaries()) if any(g.dim > 0 for g in present.values()) else 0
    ctx.check("boundary-grids-count", nbg == sum(1 for g in present.values() if g.dim > 0), case)
    # filtered listings
    for d in (0, 1, 2):
        ctx.check("dimension-filter", all(g.dim == d for g in mdg.subdomains(dim=d))
                  and len(mdg.subdomains(dim=d)) == sum(1 for g in present.values() if g.dim == d), case)


def run_shard(ex, shard):
    _base()
    for h in shard["hists"]:
        ex.run(harness, label=str(h), args=([tuple(o) for o in h],))


# ---------------------------------------------------------------- real-code side


def concrete_run(case):
    raise NotImplementedError


def replay_case(case):
    """Same history on the real container with the concrete ids of the counterexample."""
    import copy as _copy

    import porepy as pp

    b = _base()
    ns = len(b["sds"])
    sds = [g.copy() for g in b["sds"]]
    for g, s in zip(sds, case["sid"]):
        g._Grid__id = int(s)
    mdg = pp.MixedDimensionalGrid()
    present, ipresent = {}, {}
    problems = []

    class C:
        def check(self, name, claim, *_a, **_k):
            if hasattr(claim, "sexpr"):
                claim = z3.is_true(z3.simplify(claim))
            if not bool(claim):
                problems.append(name)

    c = C()
    try:
        for op, i in case["hist"]:
            if op == "as":
                mdg.add_subdomains(sds[i])
                present[i] = sds[i]
            elif op == "ai":
                a, cc = b["pairs"][i]
                mg = _copy.copy(b["intfs"][i])
                mg._MortarGrid__id = int(case["iid"][i])
                mdg.add_interface(mg, (present[cc], present[a]) if i % 2 else (present[a], present[cc]), b["maps"][i])
                ipresent[i] = mg
            elif op == "rm":
                mdg.remove_subdomain(present[i])
                del present[i]
                for j in [j for j in ipresent if i in b["pairs"][j]]:
                    del ipresent[j]
            elif op == "rp":
                new = present[i].copy()
                new._Grid__id = int(case["rid"][i])
                mdg.replace_subdomains_and_interfaces(sd_map={present[i]: new})
                present[i] = new
            _invariants(c, mdg, present, ipresent, b, None)
    except Exception as e:  # noqa: BLE001
        problems.append(f"raised {type(e).__name__}: {e}")
    if problems:
        return True, f"history {case['hist']} with ids {case['sid']}/{case['iid']}: {sorted(set(problems))[:3]}"
    return False, "consistent"
