"""C08 — stored time-step / iterate histories behave as sliding windows.

(1) inductive step: arbitrary valid storage state (n stored arrays, symbolic n and contents),
    one shift with symbolic max_index -> post-state relation;
(2) bounded histories of write rounds / additive writes / bare shifts / overwrites / reads
    with symbolic values through the dictionary helpers and the EquationSystem wrappers,
    against a Python-list sliding-window reference, including aliasing probes.
"""
from __future__ import annotations

import itertools

import numpy as np
import z3

from ..arr import SymArr, sa
from ..sym import SReal, lift

PID = "C08"
TARGET_PREFIXES = ("numerics/ad/ad_utils", "numerics/ad/equation_system")

META = {
    "explanation": "set/get/shift_solution_values and the EquationSystem wrappers executed on symbolic "
                   "value arrays; sliding-window reference model; aliasing probes with fresh symbols",
    "assumptions": ["floats as exact reals", "arrays of length 2 (dict helpers) / 10 dofs (equation system)"],
    "stubs": [],
    "outside": ["histories longer than the stated bound", "storage pre-populated with more entries than the depth"],
}

OPS = ["W", "A", "S", "O", "G"]


def shards(tier, seed):
    L = 4 if tier == "quick" else 6
    out = [{"kind": "step"}]
    depths = [1, 2, 3, None]
    for loc in ("time", "iter"):
        for d in depths:
            out.append({"kind": "hist", "api": "dict", "loc": loc, "depth": d, "L": L})
    for loc in ("time", "iter"):
        for d in (1, 2, 3) if tier == "quick" else depths:
            out.append({"kind": "hist", "api": "es", "loc": loc, "depth": d, "L": 3 if tier == "quick" else 5})
    return out


def _histories(L):
    for n in range(1, L + 1):
        for h in itertools.product(OPS, repeat=n):
            # a read right at the start or two reads in a row add nothing
            if any(a == "G" and b == "G" for a, b in zip(h, h[1:])):
                continue
            yield h


# ---------------------------------------------------------------- reference model


class Window:
    def __init__(self, depth):
        self.w = []
        self.depth = depth

    def _cap(self):
        if self.depth is not None:
            del self.w[self.depth:]

    def shift(self):
        if self.w:
            self.w.insert(0, self.w[0])
            self._cap()

    def write_round(self, v):
        self.shift()
        self.overwrite(v)

    def overwrite(self, v):
        if self.w:
            self.w[0] = v
        else:
            self.w = [v]

    def additive(self, v):
        if not self.w:
            return False
        self.w[0] = self.w[0] + v
        return True


# ---------------------------------------------------------------- harnesses


def _loc(loc):
    import porepy as pp

    return pp.TIME_STEP_SOLUTIONS if loc == "time" else pp.ITERATE_SOLUTIONS


def _kw(loc, i):
    return {"time_step_index": i} if loc == "time" else {"iterate_index": i}


def hist_dict(ctx, hist, loc, depth):
    import porepy as pp

    data = {}
    ref = Window(depth)
    inputs = {"hist": list(hist), "loc": loc, "depth": depth, "api": "dict", "vals": []}

    def case(conc):
        c = conc(inputs)
        c["vals"] = [np.asarray(v).tolist() for v in c["vals"]]
        return c

    k = 0
    for step, op in enumerate(hist):
        if op in ("W", "A", "O"):
            v = ctx.reals(f"v{k}", 2)
            k += 1
            inputs["vals"].append(v.copy())
            keep = v.copy()
            if op == "W":
                pp.shift_solution_values("u", data, _loc(loc), depth)
                pp.set_solution_values("u", v, data, **_kw(loc, 0))
                ref.write_round(keep)
            elif op == "O":
                pp.set_solution_values("u", v, data, **_kw(loc, 0))
                ref.overwrite(keep)
            else:
                try:
                    pp.set_solution_values("u", v, data, additive=True, **_kw(loc, 0))
                    raised = False
                except ValueError:
                    raised = True
                ok = ref.additive(keep)
                ctx.check("additive-on-empty-rejected", raised == (not ok), case)
            # aliasing probe: mutate the caller's array after the write
            v[0] = ctx.fresh_real("alias")
        elif op == "S":
            pp.shift_solution_values("u", data, _loc(loc), depth)
            ref.shift()
        elif op == "G":
            for i in range(len(ref.w) + 1):
                try:
                    got = pp.get_solution_values("u", data, **_kw(loc, i))
                    raisedk = False
                except KeyError:
                    got, raisedk = None, True
                ctx.check("read-of-empty-slot-raises", raisedk == (i >= len(ref.w)), case)
                if got is not None and i < len(ref.w):
                    for j in range(2):
                        ctx.check("read-value", lift(got[j]) == lift(ref.w[i][j]), case)
                    got[0] = ctx.fresh_real("alias")  # mutate the returned array
        _compare_store(ctx, data.get(_loc(loc), {}).get("u", {}), ref, case, step)
    m = ctx.reach("end")
    if m is not None and _clean(ctx) and _h(hist) % 7 == 0:
        ctx.validate_replay("float-run", case, model=m)
    if ctx.idx == 0:
        ctx.sample({"history": "".join(hist), "loc": loc, "depth": depth, "stored": len(ref.w)})


def _compare_store(ctx, stored, ref, case, step):
    keys = sorted(stored.keys())
    ctx.check("stored-keys", keys == list(range(len(ref.w))), case)
    if keys != list(range(len(ref.w))):
        return
    for i, w in enumerate(ref.w):
        for j in range(len(w)):
            ctx.check("window-value", lift(stored[i][j]) == lift(w[j]), case)


def _h(hist):
    import zlib

    return zlib.crc32("".join(hist).encode())


def _clean(ctx):
    return not ctx.rep.violations and not ctx.rep.unconfirmed


_ES = {}


def _es_env():
    if _ES:
        return _ES
    import porepy as pp

    mdg, _ = pp.mdg_library.square_with_orthogonal_fractures(
        "cartesian", {"cell_size": 0.5}, fracture_indices=[1])
    es = pp.ad.EquationSystem(mdg)
    es.create_variables("x", subdomains=mdg.subdomains())
    es.create_variables("lam", interfaces=mdg.interfaces())
    _ES.update(mdg=mdg, es=es, n=es.num_dofs())
    return _ES


def _es_reset(e):
    import porepy as pp

    for _, d in list(e["mdg"].subdomains(return_data=True)) + list(e["mdg"].interfaces(return_data=True)):
        d.pop(pp.TIME_STEP_SOLUTIONS, None)
        d.pop(pp.ITERATE_SOLUTIONS, None)


def hist_es(ctx, hist, loc, depth):
    e = _es_env()
    _es_reset(e)
    es, n = e["es"], e["n"]
    ref = Window(depth)
    inputs = {"hist": list(hist), "loc": loc, "depth": depth, "api": "es", "vals": []}

    def case(conc):
        c = conc(inputs)
        c["vals"] = [np.asarray(v).tolist() for v in c["vals"]]
        return c

    shift = es.shift_time_step_values if loc == "time" else es.shift_iterate_values
    k = 0
    for step, op in enumerate(hist):
        if op in ("W", "A", "O"):
            v = ctx.reals(f"v{k}", n)
            k += 1
            inputs["vals"].append(v.copy())
            keep = v.copy()
            if op == "W":
                shift(max_index=depth)
                es.set_variable_values(v, **_kw(loc, 0))
                ref.write_round(keep)
            elif op == "O":
                es.set_variable_values(v, **_kw(loc, 0))
                ref.overwrite(keep)
            else:
                try:
                    es.set_variable_values(v, additive=True, **_kw(loc, 0))
                    raised = False
                except ValueError:
                    raised = True
                ok = ref.additive(keep)
                ctx.check("additive-on-empty-rejected", raised == (not ok), case)
            v[0] = ctx.fresh_real("alias")
        elif op == "S":
            shift(max_index=depth)
            ref.shift()
        elif op == "G":
            for i in range(len(ref.w) + 1):
                try:
                    got = es.get_variable_values(**_kw(loc, i))
                    raisedk = False
                except KeyError:
                    got, raisedk = None, True
                ctx.check("read-of-empty-slot-raises", raisedk == (i >= len(ref.w)), case)
                if got is not None and i < len(ref.w):
                    for j in range(n):
                        ctx.check("read-value", lift(got[j]) == lift(ref.w[i][j]), case)
                    got[0] = ctx.fresh_real("alias")
        # final read-back of every level
        for i in range(len(ref.w)):
            try:
                got = es.get_variable_values(**_kw(loc, i))
            except KeyError:
                ctx.check("window-level-present", False, case)
                continue
            for j in range(n):
                ctx.check("window-value", lift(got[j]) == lift(ref.w[i][j]), case)
        try:
            es.get_variable_values(**_kw(loc, len(ref.w)))
            ctx.check("window-depth", False, case)
        except KeyError:
            ctx.check("window-depth", True, case)
    m = ctx.reach("end")
    if m is not None and _clean(ctx) and _h(hist) % 7 == 0:
        ctx.validate_replay("float-run", case, model=m)
    if ctx.idx == 0:
        ctx.sample({"history": "".join(hist), "loc": loc, "depth": depth, "api": "equation system"})


def step_harness(ctx):
    """One shift from an arbitrary valid state: n and max_index are symbolic integers."""
    import porepy as pp

    n = ctx.int("n", 0, 4)
    use_none = ctx.boolean("max_index_is_None")
    mi = ctx.int("max_index", 0, 5)
    nn = int(n)            # solver-driven case split
    none = bool(use_none)
    m = None if none else int(mi)
    loc = pp.TIME_STEP_SOLUTIONS
    old = [ctx.reals(f"s{i}", 2) for i in range(nn)]
    data = {loc: {"u": {i: old[i].copy() for i in range(nn)}}} if nn else {}
    inputs = {"n": nn, "max_index": m, "old": [o.copy() for o in old]}

    def case(conc):
        c = conc(inputs)
        c["old"] = [np.asarray(v).tolist() for v in c["old"]]
        c["step"] = True
        return c

    pp.shift_solution_values("u", data, loc, m)
    new = data.get(loc, {}).get("u", {})
    if nn == 0:
        ctx.check("step-empty-stays-empty", len(new) == 0, case)
        ctx.reach("end")
        return
    # expected: index 0 unchanged; new[i] = old[i-1] for 1 <= i <= top; rest unchanged
    if m is None or m > nn:
        top = nn
    else:
        top = min(m - 1, nn)
    exp = {i: old[i] for i in range(nn)}
    for i in range(1, top + 1):
        exp[i] = old[i - 1]
    ctx.check("step-keys", sorted(new.keys()) == sorted(exp.keys()), case)
    if sorted(new.keys()) == sorted(exp.keys()):
        for i in exp:
            for j in range(2):
                ctx.check("step-value", lift(new[i][j]) == lift(exp[i][j]), case)
        # no aliasing between levels
        if len(new) >= 2:
            new[1][0] = ctx.fresh_real("alias")
            ctx.check("step-no-alias", lift(new[0][0]) == lift(old[0][0]), case)
    ctx.reach("end")
    ctx.sample({"step": {"n": nn, "max_index": m, "levels_after": len(new)}})


def run_shard(ex, shard):
    if shard["kind"] == "step":
        ex.run(step_harness, label="step")
        return
    h = hist_dict if shard["api"] == "dict" else hist_es
    if shard["api"] == "es":
        _es_env()
    for hist in _histories(shard["L"]):
        ex.run(h, label=f"{shard['api']}:{shard['loc']}:d{shard['depth']}:{''.join(hist)}",
               args=(hist, shard["loc"], shard["depth"]))


# ---------------------------------------------------------------- real-code side


def concrete_run(case):
    raise NotImplementedError


def replay_case(case):
    import porepy as pp

    if case.get("step"):
        loc = pp.TIME_STEP_SOLUTIONS
        old = [np.array(o, dtype=float) for o in case["old"]]
        n, m = case["n"], case["max_index"]
        data = {loc: {"u": {i: old[i].copy() for i in range(n)}}} if n else {}
        pp.shift_solution_values("u", data, loc, m)
        new = data.get(loc, {}).get("u", {})
        top = n if (m is None or m > n) else min(m - 1, n)
        exp = {i: old[i] for i in range(n)}
        for i in range(1, top + 1):
            exp[i] = old[i - 1]
        if sorted(new) != sorted(exp):
            return True, f"levels after shift {sorted(new)} != {sorted(exp)}"
        for i in exp:
            if not np.array_equal(new[i], exp[i]):
                return True, f"level {i}: {new[i]} != {exp[i]}"
        if len(new) >= 2:
            new[1][0] += 1.0
            if new[0][0] != old[0][0]:
                return True, "levels alias each other after shift"
        return False, "ok"
    loc, depth, hist = case["loc"], case["depth"], case["hist"]
    vals = [np.array(v, dtype=float) for v in case["vals"]]
    ref = Window(depth)
    if case["api"] == "dict":
        data = {}
        setv = lambda v, **k: pp.set_solution_values("u", v, data, **k)  # noqa: E731
        getv = lambda **k: pp.get_solution_values("u", data, **k)  # noqa: E731
        shift = lambda: pp.shift_solution_values("u", data, _loc(loc), depth)  # noqa: E731
    else:
        e = _es_env()
        _es_reset(e)
        es = e["es"]
        setv = lambda v, **k: es.set_variable_values(v, **k)  # noqa: E731
        getv = lambda **k: es.get_variable_values(**k)  # noqa: E731
        sh = es.shift_time_step_values if loc == "time" else es.shift_iterate_values
        shift = lambda: sh(max_index=depth)  # noqa: E731
    k = 0
    for step, op in enumerate(hist):
        if op in ("W", "A", "O"):
            v = vals[k].copy()
            keep = v.copy()
            k += 1
            if op == "W":
                shift()
                setv(v, **_kw(loc, 0))
                ref.write_round(keep)
            elif op == "O":
                setv(v, **_kw(loc, 0))
                ref.overwrite(keep)
            else:
                try:
                    setv(v, additive=True, **_kw(loc, 0))
                    raised = False
                except ValueError:
                    raised = True
                ok = ref.additive(keep)
                if raised != (not ok):
                    return True, f"step {step}: additive write raised={raised}, slot empty={not ok}"
            v[0] += 7.0
        elif op == "S":
            shift()
            ref.shift()
        elif op == "G":
            for i in range(len(ref.w) + 1):
                try:
                    got = getv(**_kw(loc, i))
                    r = False
                except KeyError:
                    got, r = None, True
                if r != (i >= len(ref.w)):
                    return True, f"step {step}: read of level {i} raised={r} with {len(ref.w)} levels"
                if got is not None and i < len(ref.w):
                    if not np.allclose(got, ref.w[i], rtol=1e-12, atol=1e-12):
                        return True, f"step {step}: read level {i} {got} != {ref.w[i]}"
                    got[0] += 5.0
        for i in range(len(ref.w)):
            got = getv(**_kw(loc, i))
            if not np.allclose(got, ref.w[i], rtol=1e-12, atol=1e-12):
                return True, f"after step {step} ({op}): level {i} holds {got}, sliding window {ref.w[i]}"
        try:
            getv(**_kw(loc, len(ref.w)))
            return True, f"after step {step} ({op}): more than {len(ref.w)} levels stored"
        except KeyError:
            pass
    return False, "ok"
