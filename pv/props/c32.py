"""C32 — coordinate maps and tangential-normal bases are orthonormal (symbolic directions)."""
from __future__ import annotations

import fractions

import numpy as np
import z3

from ..adutil import uf_applications
from ..arr import SymArr
from ..sym import SReal, lift, rv

PID = "C32"
TARGET_PREFIXES = ("geometry/map_geometry", "utils/tangential_normal_projection")

F = fractions.Fraction

META = {
    "explanation": "map_geometry.rotation_matrix / project_plane_matrix / project_line_matrix / compute_normal and "
                   "TangentialNormalProjection (2-d and 3-d) executed on symbolic direction vectors, rotation angles and "
                   "planar point sets; z3 decides orthogonality, determinant, image of the normal / tangent and "
                   "orthogonality of computed normals for all values in the stated boxes",
    "assumptions": [
        "floats as exact reals", "direction vectors with components in [-2, 2] and squared length >= 1/4",
        "project_plane_matrix / project_line_matrix: the direction is not (anti-)parallel to the reference axis "
        "(nx^2 + ny^2 >= 1/16); the exactly parallel and anti-parallel directions are separate concrete cases",
        "compute_normal: 3 or 4 points u_i e1 + v_i e2 of a plane with rational orthonormal basis, symbolic (u_i, v_i) in "
        "[-2, 2], not collinear (largest cross product >= 1/4)",
        "TangentialNormalProjection: one normal, dominant component fixed per case and >= 1/4 larger in modulus than "
        "the others (the argmax tie is within the tolerance band); the other components are exactly zero (axis case) or "
        "have norm >= 2^-20 (the code switches to the axis-aligned basis below 1e-8)"],
    "stubs": ["np.sqrt(x): |t| when x is syntactically t*t, otherwise fresh r >= 0 with r*r == x",
              "sin / cos of a symbolic angle: uninterpreted values with sin^2 + cos^2 = 1",
              "cos(arccos t) = t and sin(arccos t) = sqrt(1 - t^2) (exact identities on [-1, 1])",
              "np.linalg.inv of a symbolic 2x2 / 3x3 block: adj(A)/det(A) under det(A) != 0"],
    "outside": ["map_grid (grid objects), project_points_to_line", "directions inside the tolerance band of a special case"],
}


def shards(tier, seed):
    out = [{"kind": "rotation"}, {"kind": "rotation-zero-axis"}]
    for ref in (None, "x"):
        out.append({"kind": "plane", "ref": ref})
        out.append({"kind": "line", "ref": ref})
    for sgn in (1, -1):
        out.append({"kind": "plane-parallel", "sign": sgn})
    for npts in ((3,) if tier == "quick" else (3, 4)):
        for basis in (0, 1):
            out.append({"kind": "normal", "npts": npts, "basis": basis})
    for dom in range(3):
        for sg in (1, -1):
            out.append({"kind": "tnp3", "dom": dom, "sign": sg})
    for case in ("neg", "pos", "zero"):
        out.append({"kind": "tnp2", "case": case})
    for ax in range(3):
        out.append({"kind": "tnp3-axis", "axis": ax})
    return out


def configure(cfg, tier):
    cfg.incremental_first = False
    cfg.slice_first = True
    cfg.simplify_div = True
    cfg.fresh_branches = True
    cfg.interval_first = True
    cfg.branch_timeout_ms = 10000
    cfg.query_timeout_ms = 60000 if tier == "quick" else 300000
    cfg.max_paths = 60


def _vec(ctx, name, n=3, lo=-2, hi=2):
    return [ctx.real(f"{name}{i}", lo, hi) for i in range(n)]


def _arr(v):
    a = np.empty(len(v), dtype=object)
    for i, x in enumerate(v):
        a[i] = x
    return a.view(SymArr)


def _mat(M):
    return np.asarray(M, dtype=object)


def _check_rotation(ctx, tag, R, case, det=1):
    R = _mat(R)
    n = R.shape[0]
    ctx.check(f"{tag}:shape", R.shape == (n, n), case)
    for i in range(n):
        for j in range(i, n):
            ctx.check(f"{tag}:orthogonal", z3.Sum([lift(R[i, k]) * lift(R[j, k]) for k in range(n)]) == (1 if i == j else 0), case)
            ctx.check(f"{tag}:orthogonal", z3.Sum([lift(R[k, i]) * lift(R[k, j]) for k in range(n)]) == (1 if i == j else 0), case)
    if n == 3:
        d = (lift(R[0, 0]) * (lift(R[1, 1]) * lift(R[2, 2]) - lift(R[1, 2]) * lift(R[2, 1]))
             - lift(R[0, 1]) * (lift(R[1, 0]) * lift(R[2, 2]) - lift(R[1, 2]) * lift(R[2, 0]))
             + lift(R[0, 2]) * (lift(R[1, 0]) * lift(R[2, 1]) - lift(R[1, 1]) * lift(R[2, 0])))
    else:
        d = lift(R[0, 0]) * lift(R[1, 1]) - lift(R[0, 1]) * lift(R[1, 0])
    if det == 1:
        ctx.check(f"{tag}:determinant-one", d == 1, case)
    else:
        ctx.check(f"{tag}:determinant-unit-modulus", z3.Or(d == 1, d == -1), case)
    return d


def _trig_axioms(ctx, terms):
    """sin^2 + cos^2 = 1 for every angle that occurs under sin or cos (true for the real functions)."""
    from ..sym import UF

    args = {}
    for app in uf_applications(terms):
        if app.decl().name() in ("sin", "cos"):
            args[app.arg(0).get_id()] = app.arg(0)
    for a in args.values():
        s_, c_ = UF["sin"](a), UF["cos"](a)
        ctx.assume(z3.And(s_ * s_ + c_ * c_ == 1, s_ >= -1, s_ <= 1, c_ >= -1, c_ <= 1))


def _terms(M):
    return [lift(x) for x in _mat(M).ravel().tolist()]


def harness(ctx, shard):
    import porepy as pp

    mg = pp.map_geometry
    kind = shard["kind"]
    inputs = {"shard": shard}

    def case(conc):
        c = conc(inputs)
        return {k: (v if k == "shard" else np.asarray(v, dtype=float).tolist()) for k, v in c.items()}

    if kind == "rotation":
        a = ctx.real("angle", -4, 4)
        v = _vec(ctx, "v")
        ctx.assume(z3.Sum([lift(x) * lift(x) for x in v]) >= rv(F(1, 4)))
        inputs.update(angle=a, v=v)
        R = mg.rotation_matrix(a, _arr(v))
        _trig_axioms(ctx, _terms(R))
        _check_rotation(ctx, "rotation_matrix", R, case)
        R = _mat(R)
        # the axis is fixed: R v = v
        for i in range(3):
            ctx.check("rotation_matrix:axis-fixed", z3.Sum([lift(R[i, k]) * lift(v[k]) for k in range(3)]) == lift(v[i]), case)
        from ..sym import UF

        ctx.check("rotation_matrix:trace", lift(R[0, 0]) + lift(R[1, 1]) + lift(R[2, 2]) == 1 + 2 * UF["cos"](lift(a)), case)
    elif kind == "rotation-zero-axis":
        a = ctx.real("angle", -4, 4)
        inputs.update(angle=a)
        R = _mat(mg.rotation_matrix(a, np.zeros(3)))
        ctx.check("rotation_matrix:zero-axis-gives-identity",
                  z3.And([lift(R[i, j]) == (1 if i == j else 0) for i in range(3) for j in range(3)]), case)
    elif kind in ("plane", "line"):
        n = _vec(ctx, "n")
        ref = None if shard["ref"] is None else np.array([1.0, 0.0, 0.0])
        refv = [0, 0, 1] if ref is None else [1, 0, 0]
        n2 = z3.Sum([lift(x) * lift(x) for x in n])
        ctx.assume(n2 >= rv(F(1, 4)))
        perp = z3.Sum([lift(x) * lift(x) for x, r in zip(n, refv) if r == 0])
        ctx.assume(perp >= rv(F(1, 16)))
        inputs.update(n=n)
        pts = np.zeros((3, 3))
        if kind == "plane":
            R = mg.project_plane_matrix(pts, normal=_arr(n), reference=ref, check_planar=False)
        else:
            R = mg.project_line_matrix(pts, tangent=_arr(n), reference=ref)
        tag = f"project_{kind}_matrix"
        _check_rotation(ctx, tag, R, case)
        R = _mat(R)
        # the (normalised) direction is mapped to the reference axis: R n = |n| ref
        for i in range(3):
            img = z3.Sum([lift(R[i, k]) * lift(n[k]) for k in range(3)])
            if refv[i] == 0:
                ctx.check(f"{tag}:direction-mapped-to-reference-axis", img == 0, case)
            else:
                ctx.check(f"{tag}:direction-mapped-to-reference-axis", z3.And(img > 0, img * img == n2), case)
    elif kind == "plane-parallel":
        s = ctx.real("s", 0.5, 2)
        inputs.update(s=[s])
        nv = _arr([SReal(rv(0)), SReal(rv(0)), s * shard["sign"]])
        R = _mat(mg.project_plane_matrix(np.zeros((3, 3)), normal=nv, check_planar=False))
        _check_rotation(ctx, "project_plane_matrix(parallel)", R, case)
        # the plane z = const is mapped onto itself (the normal to +-e_z)
        ctx.check("project_plane_matrix(parallel):normal-stays-on-axis",
                  z3.And(lift(R[0, 2]) == 0, lift(R[1, 2]) == 0, z3.Or(lift(R[2, 2]) == 1, lift(R[2, 2]) == -1)), case)
    elif kind == "normal":
        npts = shard["npts"]
        if shard["basis"] == 0:
            e1, e2 = (F(1), F(0), F(0)), (F(0), F(1), F(0))
        else:
            e1, e2 = (F(2, 3), F(2, 3), F(-1, 3)), (F(-1, 3), F(2, 3), F(2, 3))
        u = [ctx.real(f"u{i}", -2, 2) for i in range(npts)]
        v = [ctx.real(f"v{i}", -2, 2) for i in range(npts)]
        # not collinear: some pair of difference vectors spans an area
        areas = []
        for i in range(1, npts):
            for j in range(i + 1, npts):
                ar = (lift(u[i]) - lift(u[0])) * (lift(v[j]) - lift(v[0])) - (lift(u[j]) - lift(u[0])) * (lift(v[i]) - lift(v[0]))
                areas.append(z3.Or(ar >= rv(F(1, 4)), ar <= -rv(F(1, 4))))
        ctx.assume(z3.And(areas))
        inputs.update(u=u, v=v)
        P = np.empty((3, npts), dtype=object)
        for i in range(npts):
            for d in range(3):
                P[d, i] = u[i] * SReal(rv(e1[d])) + v[i] * SReal(rv(e2[d]))
        nrm = np.asarray(mg.compute_normal(P.view(SymArr)), dtype=object).ravel()
        ctx.check("compute_normal:shape", nrm.shape == (3,), case)
        ctx.check("compute_normal:unit-length", z3.Sum([lift(x) * lift(x) for x in nrm.tolist()]) == 1, case)
        for d_ in (e1, e2):
            ctx.check("compute_normal:orthogonal-to-the-plane", z3.Sum([lift(nrm[k]) * rv(d_[k]) for k in range(3)]) == 0, case)
    elif kind in ("tnp3", "tnp3-axis", "tnp2"):
        from porepy.utils.tangential_normal_projection import TangentialNormalProjection

        if kind == "tnp3":
            n = _vec(ctx, "n")
            dom, sg = shard["dom"], shard["sign"]
            ctx.assume(sg * lift(n[dom]) >= rv(F(1, 2)))
            for k in range(3):
                if k != dom:
                    ctx.assume(z3.And(lift(n[k]) <= sg * lift(n[dom]) - rv(F(1, 4)), -lift(n[k]) <= sg * lift(n[dom]) - rv(F(1, 4))))
            # not inside the tolerance band of the axis-aligned special case (1e-8 on the normalised vector)
            ctx.assume(z3.Sum([lift(n[k]) * lift(n[k]) for k in range(3) if k != dom]) >= rv(F(1, 2 ** 40)))
            dim = 3
        elif kind == "tnp3-axis":
            s = ctx.real("s", 0.5, 2)
            n = [SReal(rv(0))] * 3
            n[shard["axis"]] = s
            dim = 3
        else:
            n = _vec(ctx, "n", 2)
            if shard["case"] == "neg":
                ctx.assume(lift(n[1]) <= -rv(F(1, 8)))
            elif shard["case"] == "pos":
                ctx.assume(lift(n[1]) >= rv(F(1, 8)))
            else:
                ctx.assume(lift(n[1]) == 0)
                ctx.assume(z3.Or(lift(n[0]) >= rv(F(1, 2)), lift(n[0]) <= -rv(F(1, 2))))
            dim = 2
        inputs.update(n=[x for x in n if isinstance(x, SReal)])
        N = np.empty((dim, 1), dtype=object)
        for k in range(dim):
            N[k, 0] = n[k]
        tnp = TangentialNormalProjection(N.view(SymArr))
        P = _mat(tnp._projection)[:, :, 0]
        _check_rotation(ctx, f"TangentialNormalProjection{dim}d", P, case, det=0)
        n2 = z3.Sum([lift(x) * lift(x) for x in n])
        for i in range(dim):
            img = z3.Sum([lift(P[i, k]) * lift(n[k]) for k in range(dim)])
            if i < dim - 1:
                ctx.check(f"TangentialNormalProjection{dim}d:normal-mapped-to-last-axis", img == 0, case)
            else:
                ctx.check(f"TangentialNormalProjection{dim}d:normal-mapped-to-last-axis", z3.And(img > 0, img * img == n2), case)
        nn = np.asarray(tnp.normals, dtype=object)[:, 0]
        ctx.check(f"TangentialNormalProjection{dim}d:stored-normal-is-unit",
                  z3.And(z3.Sum([lift(x) * lift(x) for x in nn.tolist()]) == 1,
                         *[lift(nn[k]) * lift(n[(k + 1) % dim]) == lift(nn[(k + 1) % dim]) * lift(n[k]) for k in range(dim)]), case)
    else:
        raise ValueError(kind)
    m = ctx.reach("end")
    if m is not None:
        ctx.validate_replay("float-run", case, model=m)
    ctx.sample({"shard": shard, "path": ctx.idx})


def run_shard(ex, shard):
    ex.run(harness, label=str(shard), args=(shard,))


# ---------------------------------------------------------------- real-code side


def concrete_run(case):
    raise NotImplementedError


def _rot_ok(R, det=1):
    R = np.asarray(R, dtype=float)
    n = R.shape[0]
    if not np.allclose(R @ R.T, np.eye(n), atol=1e-9) or not np.allclose(R.T @ R, np.eye(n), atol=1e-9):
        return "not orthogonal"
    d = np.linalg.det(R)
    if det == 1 and abs(d - 1) > 1e-9:
        return f"determinant {d}"
    if det == 0 and abs(abs(d) - 1) > 1e-9:
        return f"determinant {d}"
    return None


def replay_case(case):
    import porepy as pp

    mg = pp.map_geometry
    shard = case["shard"]
    kind = shard["kind"]
    problems = []
    if kind == "rotation":
        a, v = float(np.ravel(case["angle"])[0]), np.array(case["v"], dtype=float)
        R = mg.rotation_matrix(a, v)
        p = _rot_ok(R)
        if p:
            problems.append(p)
        if not np.allclose(R @ v, v, atol=1e-9):
            problems.append("axis not fixed")
        if abs(np.trace(R) - 1 - 2 * np.cos(a)) > 1e-9:
            problems.append("trace")
    elif kind == "rotation-zero-axis":
        R = mg.rotation_matrix(float(np.ravel(case["angle"])[0]), np.zeros(3))
        if not np.allclose(R, np.eye(3)):
            problems.append("not the identity")
    elif kind in ("plane", "line"):
        n = np.array(case["n"], dtype=float)
        ref = None if shard["ref"] is None else np.array([1.0, 0.0, 0.0])
        refv = np.array([0, 0, 1.0]) if ref is None else ref
        if kind == "plane":
            R = mg.project_plane_matrix(np.zeros((3, 3)), normal=n, reference=ref, check_planar=False)
        else:
            R = mg.project_line_matrix(np.zeros((3, 3)), tangent=n, reference=ref)
        p = _rot_ok(R)
        if p:
            problems.append(p)
        if not np.allclose(R @ n, np.linalg.norm(n) * refv, atol=1e-9):
            problems.append(f"direction mapped to {(R @ n).tolist()}")
    elif kind == "plane-parallel":
        s = float(np.ravel(case["s"])[0])
        R = mg.project_plane_matrix(np.zeros((3, 3)), normal=np.array([0, 0, s * shard["sign"]]), check_planar=False)
        p = _rot_ok(R)
        if p:
            problems.append(p)
        if not (np.allclose(R[:2, 2], 0) and abs(abs(R[2, 2]) - 1) < 1e-12):
            problems.append("normal leaves the axis")
    elif kind == "normal":
        if shard["basis"] == 0:
            e1, e2 = np.array([1.0, 0, 0]), np.array([0, 1.0, 0])
        else:
            e1, e2 = np.array([2, 2, -1]) / 3.0, np.array([-1, 2, 2]) / 3.0
        u, v = np.array(case["u"], dtype=float), np.array(case["v"], dtype=float)
        P = np.outer(e1, u) + np.outer(e2, v)
        nrm = mg.compute_normal(P)
        if abs(np.linalg.norm(nrm) - 1) > 1e-9 or abs(nrm @ e1) > 1e-9 or abs(nrm @ e2) > 1e-9:
            problems.append(f"normal {nrm.tolist()} not a unit normal of the plane")
    else:
        from porepy.utils.tangential_normal_projection import TangentialNormalProjection

        if kind == "tnp3-axis":
            n = np.array(case["n"], dtype=float).ravel()
        else:
            n = np.array(case["n"], dtype=float).ravel()
        tnp = TangentialNormalProjection(n.reshape((-1, 1)))
        P = tnp._projection[:, :, 0]
        p = _rot_ok(P, det=0)
        if p:
            problems.append(p)
        e = np.zeros(n.size)
        e[-1] = np.linalg.norm(n)
        if not np.allclose(P @ n, e, atol=1e-9):
            problems.append(f"normal mapped to {(P @ n).tolist()}")
    if problems:
        return True, f"{shard} at {[(k, v) for k, v in case.items() if k != 'shard']}: {problems}"
    return False, "orthonormal"
