"""C42 — phase saturations and fraction derivatives are thermodynamically consistent."""
from __future__ import annotations

import itertools

import numpy as np
import z3

from ..arr import SymArr, sa
from ..diff import zdiff
from ..sym import SReal, lift, rv

PID = "C42"
TARGET_PREFIXES = ("compositional/utils",)

EPS = 1.0 / 1024

META = {
    "explanation": "_compute_saturations / compute_saturations / chainrule_fractional_derivatives / "
                   "normalize_rows (numba sources executed as Python) on symbolic fractions and densities",
    "assumptions": [
        "floats as exact reals; numba kernels run as Python source (NUMBA_DISABLE_JIT)",
        "fractions on the simplex (sum = 1); a vanishing phase has y = 0 exactly and a saturated phase y = 1 "
        f"exactly, every other fraction lies in (eps, 1-eps) with eps = {EPS} (away from the tolerance band)",
        "densities in [1/8, 8]",
        "np.linalg.solve: n <= 3 exact cofactor solution under det != 0, n = 4 contract stub A X = B",
    ],
    "stubs": ["np.linalg.solve (see assumptions)"],
    "outside": ["fractions inside the tolerance bands (0, eps] and [1-eps, 1)", "more than 3 phases (4 phases: undecided by z3 within an hour)"],
}


def shards(tier, seed):
    out = []
    phases = (2, 3)        # 4 phases: the saturation system (3x3 symbolic solve) was not decided by z3 within an hour
    for n in phases:
        out.append({"kind": "sat", "n": n})
    out.append({"kind": "sat-vector", "n": 2})
    if tier == "thorough":
        out.append({"kind": "sat-vector", "n": 3})
    for nc in (2, 3) if tier == "quick" else (2, 3, 4):
        out.append({"kind": "chain", "nc": nc, "N": 1})
    out.append({"kind": "normalize", "shape": [2, 3]})
    return out


def configure(cfg, tier):
    cfg.incremental_first = False
    cfg.query_timeout_ms = 20000 if tier == "quick" else 90000


def _case_of(inputs):
    def case(conc):
        return _json(conc(inputs))
    return case


def _json(c):
    if isinstance(c, dict):
        return {k: _json(v) for k, v in c.items()}
    if isinstance(c, np.ndarray):
        return c.tolist()
    if isinstance(c, (list, tuple)):
        return [_json(v) for v in c]
    return c


def _simplex(ctx, n, tag="y"):
    y = ctx.reals(tag, n, 0, 1)
    ys = [lift(v) for v in y.tolist()]
    ctx.assume(z3.Sum(ys) == 1)
    for v in ys:
        ctx.assume(z3.Or(v == 0, v == 1, z3.And(v > rv(EPS), v < 1 - rv(EPS))))
    return y, ys


def _sat_obligations(ctx, y, rho, s, case, tag):
    n = len(y)
    ys, rs, ss = [lift(v) for v in y], [lift(v) for v in rho], [lift(v) for v in s]
    for j in range(n):
        ctx.check(f"nonnegative[{tag}]", ss[j] >= 0, case)
    ctx.check(f"unity[{tag}]", z3.Sum(ss) == 1, case)
    total = z3.Sum([rs[k] * ss[k] for k in range(n)])
    for j in range(n):
        ctx.check(f"mass-fraction[{tag}]", ys[j] * total == rs[j] * ss[j], case)


def h_sat(ctx, n):
    import porepy.compositional.utils as cu

    y, ys = _simplex(ctx, n)
    rho = ctx.reals("rho", n, 0.125, 8)
    case = _case_of({"kind": "sat", "y": y, "rho": rho})
    s = cu._compute_saturations(y, rho, EPS)
    ctx.check("shape", np.shape(s) == (n,), case)
    _sat_obligations(ctx, y.tolist(), rho.tolist(), np.asarray(s, dtype=object).tolist(), case, f"n{n}")
    m = ctx.reach("end")
    if m is not None:
        ctx.validate_replay("float-run", case, model=m)
    ctx.sample({"phases": n, "path": ctx.idx, "s0": str(s[0])[:140]})


def h_sat_vector(ctx, n):
    import porepy.compositional.utils as cu

    N = 2
    cols = []
    Y = np.empty((n, N), dtype=object)
    R = np.empty((n, N), dtype=object)
    for c in range(N):
        y, _ = _simplex(ctx, n, tag=f"y{c}")
        rho = ctx.reals(f"rho{c}", n, 0.125, 8)
        Y[:, c], R[:, c] = y, rho
    Y, R = Y.view(SymArr), R.view(SymArr)
    case = _case_of({"kind": "sat-vector", "y": Y, "rho": R})
    S = cu.compute_saturations(Y, R, EPS)
    ctx.check("shape", np.shape(S) == (n, N), case)
    for c in range(N):
        _sat_obligations(ctx, Y[:, c].tolist(), R[:, c].tolist(), np.asarray(S, dtype=object)[:, c].tolist(),
                         case, f"vec-n{n}")
    m = ctx.reach("end")
    if m is not None:
        ctx.validate_replay("float-run", case, model=m)
    ctx.sample({"vectorised phases": n, "path": ctx.idx})


def h_chain(ctx, nc, N):
    """d/dx_j f(y, x/sum(x)) for a function with arbitrary (symbolic) gradient w.r.t. (y, xn)."""
    import porepy.compositional.utils as cu

    x = ctx.reals("x", nc, 0.0625, 4)
    g = ctx.reals("g", N + nc)     # df/dy (N entries) and df/dxn (nc entries): arbitrary
    case = _case_of({"kind": "chain", "x": x, "g": g, "N": N})
    out = cu.chainrule_fractional_derivatives(g.copy(), x)
    ctx.check("shape", np.shape(out) == (N + nc,), case)
    xs = [lift(v) for v in x.tolist()]
    S = z3.Sum(xs)
    for i in range(N):
        ctx.check("other-derivatives-untouched", lift(out[i]) == lift(g[i]), case)
    for j in range(nc):
        # independent oracle: sum_i g_i * d(x_i / S)/dx_j by symbolic differentiation
        exp = z3.Sum([lift(g[N + i]) * zdiff(xs[i] / S, xs[j]) for i in range(nc)])
        ctx.check("chain-rule", lift(out[N + j]) == exp, case)
    # the input gradient is not modified
    ctx.check("input-untouched", z3.And([lift(a) == lift(b) for a, b in zip(
        g.tolist(), [ctx.syms[f"g_{i}"] for i in range(N + nc)])]), case)
    # vectorised call (2 columns) agrees column by column
    X2 = np.empty((nc, 2), dtype=object)
    G2 = np.empty((N + nc, 2), dtype=object)
    X2[:, 0], G2[:, 0] = x, g
    x2 = ctx.reals("xb", nc, 0.0625, 4)
    g2 = ctx.reals("gb", N + nc)
    X2[:, 1], G2[:, 1] = x2, g2
    out2 = cu.chainrule_fractional_derivatives(G2.view(SymArr), X2.view(SymArr))
    ref2 = cu.chainrule_fractional_derivatives(g2.copy(), x2)
    for i in range(N + nc):
        ctx.check("vectorised-agrees", z3.And(lift(out2[i, 0]) == lift(out[i]), lift(out2[i, 1]) == lift(ref2[i])), case)
    m = ctx.reach("end")
    if m is not None:
        ctx.validate_replay("float-run", case, model=m)
    ctx.sample({"chainrule components": nc, "out": str(out[N])[:140]})


def h_normalize(ctx, shape):
    import porepy.compositional.utils as cu

    X = ctx.reals("x", tuple(shape), 0.0625, 4)
    case = _case_of({"kind": "normalize", "x": X})
    Y = cu.normalize_rows(X)
    ctx.check("shape", np.shape(Y) == tuple(shape), case)
    for i in range(shape[0]):
        row = [lift(v) for v in np.asarray(Y, dtype=object)[i].tolist()]
        ctx.check("rows-sum-to-one", z3.Sum(row) == 1, case)
        rs = z3.Sum([lift(v) for v in X[i].tolist()])
        for j in range(shape[1]):
            ctx.check("entries", row[j] * rs == lift(X[i, j]), case)
    m = ctx.reach("end")
    if m is not None:
        ctx.validate_replay("float-run", case, model=m)
    ctx.sample({"normalize_rows": shape})


def run_shard(ex, shard):
    k = shard["kind"]
    if k == "sat":
        ex.run(h_sat, label=f"sat{shard['n']}", args=(shard["n"],))
    elif k == "sat-vector":
        ex.run(h_sat_vector, label=f"satvec{shard['n']}", args=(shard["n"],))
    elif k == "chain":
        ex.run(h_chain, label=f"chain{shard['nc']}", args=(shard["nc"], shard["N"]))
    else:
        ex.run(h_normalize, label="normalize", args=(shard["shape"],))


# ---------------------------------------------------------------- real-code side


def concrete_run(case):
    raise NotImplementedError


def _check_sat(y, rho, s):
    tol = 1e-7
    if np.any(s < -tol):
        return f"negative saturation {s}"
    if abs(s.sum() - 1) > tol:
        return f"saturations sum to {s.sum()}"
    tot = (rho * s).sum()
    for j in range(len(y)):
        if abs(y[j] * tot - rho[j] * s[j]) > tol * (1 + abs(tot)):
            return f"phase {j}: y*sum(rho s) = {y[j] * tot} != rho*s = {rho[j] * s[j]} (y={y}, rho={rho}, s={s})"
    return None


def replay_case(case):
    import porepy.compositional.utils as cu

    k = case["kind"]
    if k == "sat":
        y, rho = np.array(case["y"], dtype=float), np.array(case["rho"], dtype=float)
        s = cu._compute_saturations(y, rho, EPS)
        why = _check_sat(y, rho, np.asarray(s, dtype=float))
        return (why is not None), (why or "ok")
    if k == "sat-vector":
        Y, R = np.array(case["y"], dtype=float), np.array(case["rho"], dtype=float)
        S = cu.compute_saturations(Y, R, EPS)
        for c in range(Y.shape[1]):
            why = _check_sat(Y[:, c], R[:, c], S[:, c])
            if why:
                return True, f"column {c}: {why}"
        return False, "ok"
    if k == "chain":
        x, g, N = np.array(case["x"], dtype=float), np.array(case["g"], dtype=float), case["N"]
        g0 = g.copy()
        out = cu.chainrule_fractional_derivatives(g, x)
        if not np.array_equal(g, g0):
            return True, "input gradient modified"
        nc = x.size
        S = x.sum()
        J = np.eye(nc) / S - np.outer(x, np.ones(nc)) / S ** 2   # d xn_i / d x_j
        exp = g0.copy()
        exp[N:] = g0[N:] @ J
        # finite-difference confirmation with f(xn) = g . xn
        h = 1e-6
        fd = np.zeros(nc)
        for j in range(nc):
            xp, xm = x.copy(), x.copy()
            xp[j] += h
            xm[j] -= h
            fd[j] = (g0[N:] @ (xp / xp.sum()) - g0[N:] @ (xm / xm.sum())) / (2 * h)
        if not np.allclose(exp[N:], fd, rtol=1e-5, atol=1e-6):
            return False, "oracle self-check failed"
        if not np.allclose(out, exp, rtol=1e-9, atol=1e-12):
            return True, f"chain rule {out.tolist()} != {exp.tolist()}"
        return False, "ok"
    if k == "normalize":
        X = np.array(case["x"], dtype=float)
        Y = cu.normalize_rows(X)
        if not np.allclose(Y.sum(axis=1), 1) or not np.allclose(Y * X.sum(axis=1)[:, None], X):
            return True, f"normalize_rows wrong: {Y.tolist()}"
        return False, "ok"
    return False, "?"
