"""C19 — computed grid geometry satisfies the divergence theorem (symbolic node positions)."""
from __future__ import annotations

import itertools
import random

import numpy as np
import z3

from ..arr import SymArr
from ..sym import SReal, lift, rv

PID = "C19"
TARGET_PREFIXES = ("grids/grid", "geometry/map_geometry")

PERT = 0.125
MINLEN = 2.0 ** -30   # shortest 1-d cell (far above round-off, far below any absolute length scale in the code)

META = {
    "explanation": "Grid.compute_geometry (_compute_geometry_1d / _2d, map_geometry.compute_tangent) executed on Cartesian, "
                   "structured-triangle and tensor grids whose topology is concrete and in which a subset of the nodes "
                   "is displaced by symbolic amounts; z3 decides the geometric identities for all displacements",
    "assumptions": ["floats as exact reals",
                    f"2-d: any 1, 2 or 3 nodes (quick: all single nodes, sampled pairs and triples; thorough: all) of a 2x2 Cartesian or "
                    f"2x2 structured triangle grid (thorough also 3x2 Cartesian, sampled) displaced "
                    f"by symbolic (dx, dy) in [-{PERT}, {PERT}]^2 (cells stay convex and positively oriented)",
                    "the same two grids with the node order of every third face reversed (not consistently oriented: fallback branch "
                    "for convex cells), 1 (thorough: up to 3) displaced nodes", "3x3 structured triangulation built from cell-node lists with one interior triangle listed clockwise (8 triangles x 3 "
                    "cyclic listings), one displaced interior node", "1-d: 3 (thorough: 3-5) cells, all interior and end nodes symbolic, increasing with spacing >= 2^-30 (cells of any practical length, in particular much shorter than 1e-3), total length >= 1/4, on the x-axis"],
    "stubs": ["np.sqrt(x): |t| when x is syntactically t*t, otherwise fresh r >= 0 with r*r == x"],
    "outside": ["3-d grids (_compute_geometry_3d: sub-face areas are square roots that enter the face centroids "
                "rationally; z3 did not decide the resulting queries)", "grids embedded in a tilted plane / line (C20)",
                "non-convex or inverted cells", "more simultaneously displaced nodes than stated"],
}


def _grid(kind):
    import porepy as pp

    if kind == "cart":
        return pp.CartGrid([2, 2])
    if kind == "tri":
        return pp.StructuredTriangleGrid([2, 2])
    if kind == "cart32":
        return pp.CartGrid([3, 2])
    if kind == "cart3d":
        return pp.CartGrid([2, 1, 1])
    if kind == "concave":
        # two concave cells and a convex one (consistently oriented); the vertex-average centre of the concave
        # cells lies outside their kernel, so some sub-triangle areas are negative
        import scipy.sparse as sps_

        nodes = np.array([[0, 0.5, 1, 0.5, 0.5, 0.5], [0, 0.5, 0, 1, -0.5, -1], np.zeros(6)])
        fn = sps_.csc_matrix((np.ones(16), np.array([0, 1, 1, 2, 2, 3, 3, 0, 0, 5, 5, 2, 2, 4, 4, 0]),
                              np.arange(0, 17, 2)))
        cf = sps_.csc_matrix((np.array([1, 1, 1, 1, -1, -1, -1, -1, 1, 1, 1, 1]),
                              (np.array([0, 1, 2, 3, 7, 6, 1, 0, 4, 5, 6, 7]), np.repeat(np.arange(3), 4))))
        return pp.Grid(2, nodes, fn, cf, "concave")
    if kind in ("cartflip", "triflip"):
        # same cells, but the node order of every third face is reversed: the face-node ordering no longer
        # forms oriented loops, which sends compute_geometry down its fallback for convex cells
        g = pp.CartGrid([2, 2]) if kind == "cartflip" else pp.StructuredTriangleGrid([2, 2])
        import scipy.sparse as sps_

        fn = g.face_nodes.tocsc()
        idx = fn.indices.reshape((2, g.num_faces), order="F").copy()
        for f in range(0, g.num_faces, 3):
            idx[:, f] = idx[::-1, f]
        g.face_nodes = sps_.csc_matrix((np.ones(idx.size, dtype=bool), idx.ravel("F"), np.arange(0, idx.size + 1, 2)),
                                       shape=(g.num_nodes, g.num_faces))
        return g
    if kind.startswith("tricw"):
        # 3x3 structured triangulation given by its cell-node lists, with ONE interior triangle listed
        # clockwise (kind = "tricw:<cell>:<cyclic shift>"): locally inconsistent, boundary loop consistent
        _, cell, rot = kind.split(":")
        cell, rot = int(cell), int(rot)
        nx = 3
        x = np.arange(nx + 1, dtype=float)
        xx, yy = np.meshgrid(x, x)
        pnts = np.vstack((xx.ravel(), yy.ravel(), np.zeros(xx.size)))
        tri = []
        for j in range(nx):
            for i in range(nx):
                n1 = j * (nx + 1) + i
                n2, n3, n4 = n1 + 1, n1 + 1 + nx + 1, n1 + nx + 1
                tri += [[n1, n2, n3], [n1, n3, n4]]
        tri = np.array(tri).T
        cw = tri[::-1, cell]
        tri[:, cell] = np.roll(cw, rot)
        return pp.TriangleGrid(pnts, tri=tri)
    raise ValueError(kind)


_TRICW_INTERIOR = (3, 5, 6, 8, 9, 11, 12, 14)      # triangles of the 3x3 triangulation without a boundary edge


def shards(tier, seed):
    rnd = random.Random(19 + seed)
    out = []
    kinds = [("cart", 9), ("tri", 9)] + ([("cart32", 12)] if tier != "quick" else [])
    for kind, nn in kinds:
        subsets = [[i] for i in range(nn)]
        pairs = [list(c) for c in itertools.combinations(range(nn), 2)]
        triples = [list(c) for c in itertools.combinations(range(nn), 3)]
        rnd.shuffle(pairs)
        rnd.shuffle(triples)
        if tier == "quick":
            subsets += pairs[:12] + triples[:6]
        elif kind == "cart32":
            subsets += pairs[:20] + triples[:20]
        else:
            subsets += pairs + triples
        for s in subsets:
            out.append({"dim": 2, "kind": kind, "nodes": s})
    for kind in ("cartflip", "triflip"):
        for ns in ([[4], [0]] if tier == "quick" else [[4], [0], [1], [4, 5], [3, 4, 7]]):
            out.append({"dim": 2, "kind": kind, "nodes": ns})
    for cell in _TRICW_INTERIOR:
        for rot in range(3):
            out.append({"dim": 2, "kind": f"tricw:{cell}:{rot}", "nodes": [5] if (cell + rot) % 2 == 0 else [10]})
    for n in ((3,) if tier == "quick" else (3, 4, 5)):
        out.append({"dim": 1, "n": n})
    return out


def configure(cfg, tier):
    cfg.incremental_first = False
    cfg.slice_first = True
    cfg.simplify_div = True
    cfg.fresh_branches = True
    cfg.interval_first = True
    cfg.branch_timeout_ms = 20000
    cfg.query_timeout_ms = 60000 if tier == "quick" else 240000
    cfg.max_paths = 50
    cfg.bb_max_boxes = 20000 if tier == "quick" else 400000


def _dot(a, b):
    return z3.Sum([lift(x) * lift(y) for x, y in zip(a, b)])


def _col(A, j):
    return [A[d, j] for d in range(3)]


def _boundary_loop(g):
    """Boundary nodes of a planar grid in counter-clockwise order (from the concrete topology)."""
    bf = np.where(np.abs(g.cell_faces).sum(axis=1).A.ravel() == 1)[0]
    fn = g.face_nodes.tocsc()
    edges = [tuple(fn.indices[fn.indptr[f]:fn.indptr[f + 1]]) for f in bf]
    nxt = {}
    for a, b in edges:
        nxt.setdefault(a, []).append(b)
        nxt.setdefault(b, []).append(a)
    start = min(nxt)
    loop = [start]
    prev = None
    cur = start
    while True:
        cand = [x for x in nxt[cur] if x != prev]
        n = cand[0]
        if n == start:
            break
        loop.append(n)
        prev, cur = cur, n
    # orientation from the concrete (unperturbed) coordinates
    x, y = g.nodes[0, loop], g.nodes[1, loop]
    area = 0.5 * np.sum(x * np.roll(y, -1) - np.roll(x, -1) * y)
    return loop if area > 0 else loop[::-1]


def _cell_loop(g, c):
    """Nodes of cell c in counter-clockwise order (concrete topology / reference coordinates)."""
    cf = g.cell_faces.tocsc()
    faces = cf.indices[cf.indptr[c]:cf.indptr[c + 1]]
    fn = g.face_nodes.tocsc()
    edges = [tuple(fn.indices[fn.indptr[f]:fn.indptr[f + 1]]) for f in faces]
    nxt = {}
    for a, b in edges:
        nxt.setdefault(a, []).append(b)
        nxt.setdefault(b, []).append(a)
    start = min(nxt)
    loop, prev, cur = [start], None, start
    while True:
        n = [x for x in nxt[cur] if x != prev][0]
        if n == start:
            break
        loop.append(n)
        prev, cur = cur, n
    x, y = g.nodes[0, loop], g.nodes[1, loop]
    area = 0.5 * np.sum(x * np.roll(y, -1) - np.roll(x, -1) * y)
    return loop if area > 0 else loop[::-1]


def _shoelace(N, loop):
    terms = []
    for a, b in zip(loop, loop[1:] + loop[:1]):
        terms.append(lift(N[0, a]) * lift(N[1, b]) - lift(N[0, b]) * lift(N[1, a]))
    return z3.Sum(terms) / 2


def harness2d(ctx, shard):
    g = _grid(shard["kind"])
    ref = g.nodes.copy()
    loops = [_cell_loop(g, c) for c in range(g.num_cells)]
    bloop = _boundary_loop(g)
    N = np.empty(ref.shape, dtype=object)
    disp = {}
    for i in range(ref.shape[1]):
        for d in range(3):
            N[d, i] = SReal(rv(float(ref[d, i])))
        if i in shard["nodes"]:
            for d in range(2):
                v = ctx.real(f"d{d}_{i}", -PERT, PERT)
                disp[(d, i)] = v
                N[d, i] = N[d, i] + v
    inputs = {"shard": shard, "disp": [[disp[(d, i)] for d in range(2)] for i in shard["nodes"]]}

    def case(conc):
        c = conc(inputs)
        return {"shard": shard, "disp": [[float(x) for x in p] for p in c["disp"]]}

    g.nodes = N.copy().view(SymArr)
    g.compute_geometry()
    V, cc, fn_, fa, fc = g.cell_volumes, g.cell_centers, g.face_normals, g.face_areas, g.face_centers
    cf = g.cell_faces.tocsc()
    fnodes = g.face_nodes.tocsc()
    ctx.check("shapes", np.shape(V) == (g.num_cells,) and np.shape(cc) == (3, g.num_cells)
              and np.shape(fn_) == (3, g.num_faces) and np.shape(fa) == (g.num_faces,), case)
    # (a) volumes positive, equal to the polygon area of the cell, sum to the domain measure
    for c in range(g.num_cells):
        ctx.check("cell-volume-positive", lift(V[c]) > 0, case)
        ctx.check("cell-volume-is-polygon-area", lift(V[c]) == _shoelace(N, loops[c]), case)
    ctx.check("volumes-sum-to-domain-measure", z3.Sum([lift(v) for v in V.tolist()]) == _shoelace(N, bloop), case)
    # (b) |normal| = face area = distance between the face's nodes
    for f in range(g.num_faces):
        a, b = fnodes.indices[fnodes.indptr[f]:fnodes.indptr[f + 1]]
        d2 = z3.Sum([(lift(N[d, a]) - lift(N[d, b])) * (lift(N[d, a]) - lift(N[d, b])) for d in range(3)])
        ctx.check("face-area-is-node-distance", z3.And(lift(fa[f]) >= 0, lift(fa[f]) * lift(fa[f]) == d2), case)
        ctx.check("normal-length-is-face-area", _dot(_col(fn_, f), _col(fn_, f)) == d2, case)
        ctx.check("face-center-is-midpoint", z3.And([2 * lift(fc[d, f]) == lift(N[d, a]) + lift(N[d, b])
                                                     for d in range(3)]), case)
    # (c)-(e) per cell
    for c in range(g.num_cells):
        faces = cf.indices[cf.indptr[c]:cf.indptr[c + 1]]
        sgn = cf.data[cf.indptr[c]:cf.indptr[c + 1]]
        for f, s in zip(faces, sgn):
            out = _dot(_col(fn_, f), [lift(fc[d, f]) - lift(cc[d, c]) for d in range(3)])
            ctx.check("normal-points-out-of-cell-with-positive-sign", int(s) * out > 0, case)
        for d in range(3):
            ctx.check("signed-normals-sum-to-zero", z3.Sum([int(s) * lift(fn_[d, f]) for f, s in zip(faces, sgn)]) == 0, case)
        flux = [int(s) * _dot(_col(fc, f), _col(fn_, f)) for f, s in zip(faces, sgn)]
        ctx.check("divergence-theorem-volume", z3.Sum(flux) == 2 * lift(V[c]), case)
        for d in range(3):
            ctx.check("divergence-theorem-centroid",
                      z3.Sum([fl * lift(fc[d, f]) for fl, f in zip(flux, faces)]) == 3 * lift(V[c]) * lift(cc[d, c]), case)
    m = ctx.reach("end")
    if m is not None:
        ctx.validate_replay("float-run", case, model=m)
    ctx.sample({"shard": shard, "path": ctx.idx})


def harness1d(ctx, shard):
    import porepy as pp

    n = shard["n"]
    xs = [ctx.real(f"x{i}", -4, 8) for i in range(n + 1)]
    for a, b in zip(xs, xs[1:]):
        ctx.assume(lift(b) - lift(a) >= rv(MINLEN))
    ctx.assume(lift(xs[-1]) - lift(xs[0]) >= rv(0.25))     # the line itself is not within the 1e-8 tolerance of a point
    inputs = {"shard": shard, "x": xs}

    def case(conc):
        c = conc(inputs)
        return {"shard": shard, "x": [float(v) for v in c["x"]]}

    g = pp.TensorGrid(np.arange(n + 1, dtype=float))
    N = np.empty((3, n + 1), dtype=object)
    N.fill(SReal(rv(0)))
    for i, x in enumerate(xs):
        N[0, i] = x
    g.nodes = N.copy().view(SymArr)
    g.compute_geometry()
    V, cc, fn_, fa, fc = g.cell_volumes, g.cell_centers, g.face_normals, g.face_areas, g.face_centers
    cf = g.cell_faces.tocsc()
    for c in range(n):
        ctx.check("cell-volume-positive", lift(V[c]) > 0, case)
        ctx.check("cell-volume-is-length", lift(V[c]) == lift(xs[c + 1]) - lift(xs[c]), case)
    ctx.check("volumes-sum-to-domain-measure", z3.Sum([lift(v) for v in np.asarray(V).tolist()]) == lift(xs[-1]) - lift(xs[0]), case)
    for f in range(g.num_faces):
        ctx.check("normal-length-is-face-area", z3.And(lift(fa[f]) == 1, _dot(_col(fn_, f), _col(fn_, f)) == 1), case)
    for c in range(n):
        faces = cf.indices[cf.indptr[c]:cf.indptr[c + 1]]
        sgn = cf.data[cf.indptr[c]:cf.indptr[c + 1]]
        for f, s in zip(faces, sgn):
            out = _dot(_col(fn_, f), [lift(fc[d, f]) - lift(cc[d, c]) for d in range(3)])
            ctx.check("normal-points-out-of-cell-with-positive-sign", int(s) * out > 0, case)
        for d in range(3):
            ctx.check("signed-normals-sum-to-zero", z3.Sum([int(s) * lift(fn_[d, f]) for f, s in zip(faces, sgn)]) == 0, case)
        flux = [int(s) * _dot(_col(fc, f), _col(fn_, f)) for f, s in zip(faces, sgn)]
        ctx.check("divergence-theorem-volume", z3.Sum(flux) == lift(V[c]), case)
        for d in range(3):
            ctx.check("divergence-theorem-centroid",
                      z3.Sum([fl * lift(fc[d, f]) for fl, f in zip(flux, faces)]) == 2 * lift(V[c]) * lift(cc[d, c]), case)
    m = ctx.reach("end")
    if m is not None:
        ctx.validate_replay("float-run", case, model=m)
    ctx.sample({"shard": shard, "path": ctx.idx})


def run_shard(ex, shard):
    ex.run(harness2d if shard["dim"] == 2 else harness1d, label=str(shard), args=(shard,))


# ---------------------------------------------------------------- real-code side


def concrete_run(case):
    raise NotImplementedError


def replay_case(case):
    import porepy as pp

    shard = case["shard"]
    if shard["dim"] == 1:
        x = np.array(case["x"], dtype=float)
        g = pp.TensorGrid(x)
        dim_fac = 1
        domain = x[-1] - x[0]
    else:
        g = _grid(shard["kind"])
        bloop = _boundary_loop(g)
        for i, dsp in zip(shard["nodes"], case["disp"]):
            g.nodes[0, i] += dsp[0]
            g.nodes[1, i] += dsp[1]
        dim_fac = 2
        bx, by = g.nodes[0, bloop], g.nodes[1, bloop]
        domain = 0.5 * np.sum(bx * np.roll(by, -1) - np.roll(bx, -1) * by)
    g.compute_geometry()
    problems = []
    if not np.all(g.cell_volumes > 0):
        problems.append(f"non-positive cell volumes {g.cell_volumes.tolist()}")
    if abs(g.cell_volumes.sum() - domain) > 1e-10:
        problems.append(f"volumes sum to {g.cell_volumes.sum()} != domain measure {domain}")
    if not np.allclose(np.linalg.norm(g.face_normals, axis=0), g.face_areas, atol=1e-12):
        problems.append("normal lengths differ from face areas")
    cf = g.cell_faces.tocsc()
    for c in range(g.num_cells):
        faces = cf.indices[cf.indptr[c]:cf.indptr[c + 1]]
        sgn = cf.data[cf.indptr[c]:cf.indptr[c + 1]]
        nsum = (g.face_normals[:, faces] * sgn).sum(axis=1)
        if np.abs(nsum).max() > 1e-10:
            problems.append(f"cell {c}: signed normals sum to {nsum.tolist()}")
        out = sgn * np.sum(g.face_normals[:, faces] * (g.face_centers[:, faces] - g.cell_centers[:, [c]]), axis=0)
        if not np.all(out > 0):
            problems.append(f"cell {c}: normals not outward for positive sign")
        flux = sgn * np.sum(g.face_centers[:, faces] * g.face_normals[:, faces], axis=0)
        if abs(flux.sum() - dim_fac * g.cell_volumes[c]) > 1e-10:
            problems.append(f"cell {c}: sum fc.n = {flux.sum()} != {dim_fac} V = {dim_fac * g.cell_volumes[c]}")
        cen = (flux * g.face_centers[:, faces]).sum(axis=1)
        if np.abs(cen - (dim_fac + 1) * g.cell_volumes[c] * g.cell_centers[:, c]).max() > 1e-10:
            problems.append(f"cell {c}: centroid identity fails")
    if problems:
        return True, f"{shard} displaced by {case.get('disp', case.get('x'))}: {problems[:3]}"
    return False, "identities hold"
