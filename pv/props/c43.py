"""C43 — unit conversion is consistent (conversion clauses).

Units.convert_units and the derived-unit properties run on symbolic positive base scalings
(m, kg, K, mol, rad) and symbolic values, for unit strings from the documented grammar;
material constants (FluidComponent, SolidConstants) are converted with symbolic units.
"""
from __future__ import annotations

import itertools
import random

import numpy as np
import z3

from ..arr import SymArr, sa
from ..sym import SReal, lift, rv

PID = "C43"
TARGET_PREFIXES = ("models/units", "compositional/materials")

META = {
    "explanation": "Units.convert_units / Pa,J,N,W,degree / Constants.__post_init__,to_units on symbolic "
                   "positive unit scalings and symbolic values",
    "assumptions": ["floats as exact reals", "base scalings m, kg, K, mol, rad > 0 (time scaling fixed to 1 as the "
                    "class requires)", "integer exponents in [-3, 3], at most 3 factors per unit string"],
    "stubs": [],
    "outside": ["'a flow model run with scaled units gives the same SI solution' (whole simulation incl. spsolve)",
                "fractional exponents"],
}

BASE = ["m", "kg", "K", "mol", "rad", "s"]
DERIVED = {"Pa": "kg*m^-1*s^-2", "J": "kg*m^2*s^-2", "N": "kg*m*s^-2", "W": "kg*m^2*s^-3"}
ATOMS = BASE + list(DERIVED) + ["degree"]


def _factors():
    out = []
    for u in ATOMS:
        out.append(u)
        for p in (-3, -2, -1, 2, 3):
            out.append(f"{u}^{p}")
    return out


def _strings(maxf):
    fs = _factors()
    out = list(fs)
    if maxf >= 2:
        out += ["*".join(c) for c in itertools.product(fs, repeat=2)]
    return out


def shards(tier, seed):
    rnd = random.Random(43 + seed)
    fs = _factors()
    singles = list(fs)
    pairs = ["*".join(c) for c in itertools.product(fs, repeat=2)]
    triples_n = 60 if tier == "quick" else 1500
    triples = ["*".join(rnd.choice(fs) for _ in range(3)) for _ in range(triples_n)]
    if tier == "quick":
        rnd.shuffle(pairs)
        pairs = pairs[:140]
    strings = singles + pairs + triples
    k = 8 if tier == "quick" else 16
    out = [{"kind": "strings", "units": strings[i::k]} for i in range(k)]
    out.append({"kind": "derived"})
    out.append({"kind": "materials"})
    return out


def configure(cfg, tier):
    cfg.incremental_first = False
    cfg.query_timeout_ms = 15000 if tier == "quick" else 60000


def _sym_units(ctx):
    import porepy as pp

    u = pp.Units()
    scal = {}
    for name in ("m", "kg", "K", "mol", "rad"):
        v = ctx.real(name, 1.0 / 64, 64)
        setattr(u, name, v)
        scal[name] = v
    return u, scal


def _case_of(inputs):
    def case(conc):
        return _json(conc(inputs))
    return case


def _json(c):
    if isinstance(c, dict):
        return {k: _json(v) for k, v in c.items()}
    if isinstance(c, np.ndarray):
        return c.tolist()
    if isinstance(c, (list, tuple)):
        return [_json(v) for v in c]
    return c


def _spaced(u):
    return " " + u.replace("*", " * ").replace("^", "^") + "  "


def h_string(ctx, unit):
    U, scal = _sym_units(ctx)
    v = ctx.real("v", -8, 8)
    arr = ctx.reals("a", 2, -8, 8)
    case = _case_of({"kind": "string", "unit": unit, "scal": scal, "v": v, "a": arr})
    c1 = U.convert_units(v, unit)
    back = U.convert_units(c1, unit, to_si=True)
    ctx.check("round-trip", lift(back) == lift(v), case)
    c2 = U.convert_units(U.convert_units(v, unit, to_si=True), unit)
    ctx.check("round-trip-reverse", lift(c2) == lift(v), case)
    # spaces are ignored
    ctx.check("whitespace", lift(U.convert_units(v, _spaced(unit))) == lift(c1), case)
    # composition: factor by factor equals the composed string
    step = v
    for f in unit.split("*"):
        step = U.convert_units(step, f)
    ctx.check("composition", lift(step) == lift(c1), case)
    if "*" in unit:
        head, tail = unit.split("*", 1)
        ctx.check("composition-split", lift(U.convert_units(U.convert_units(v, head), tail)) == lift(c1), case)
    # exponent semantics of the first factor: u^p is p-fold conversion (to_si for negative p)
    f0 = unit.split("*")[0]
    if "^" in f0:
        base, p = f0.split("^")
        p = int(p)
        w = v
        for _ in range(abs(p)):
            w = U.convert_units(w, base, to_si=(p < 0))
        ctx.check("exponent", lift(w) == lift(U.convert_units(v, f0)), case)
    # arrays: element-wise, input not modified
    a0 = np.asarray(arr, dtype=object).copy()
    ca = U.convert_units(arr, unit)
    for i in range(2):
        ctx.check("array-elementwise", lift(ca[i]) == lift(U.convert_units(a0[i], unit)), case)
        ctx.check("array-input-unchanged", lift(arr[i]) == lift(a0[i]), case)
    m = ctx.reach("end")
    if m is not None:
        ctx.validate_replay("float-run", case, model=m)
    if ctx.rep.paths % 61 == 0:
        ctx.sample({"unit": unit, "converted": str(c1)[:120]})


def h_derived(ctx):
    U, scal = _sym_units(ctx)
    v = ctx.real("v", -8, 8)
    case = _case_of({"kind": "derived", "scal": scal, "v": v})
    for d, expr in DERIVED.items():
        ctx.check(f"derived[{d}]", lift(U.convert_units(v, d)) == lift(U.convert_units(v, expr)), case)
        ctx.check(f"derived-inverse[{d}]",
                  lift(U.convert_units(v, d + "^-1")) == lift(U.convert_units(v, d, to_si=True)), case)
    ctx.check("degree", lift(U.convert_units(v, "degree")) * lift(U.rad) * 180 == lift(v) * rv(float(np.pi)), case)
    for dimless in ("", "1", "-", " "):
        ctx.check("dimensionless", lift(U.convert_units(v, dimless)) == lift(v), case)
    m = ctx.reach("end")
    if m is not None:
        ctx.validate_replay("float-run", case, model=m)
    ctx.sample({"derived": {d: str(U.convert_units(v, d)) for d in DERIVED}})


def h_materials(ctx, which):
    import porepy as pp

    U, scal = _sym_units(ctx)
    cls = pp.FluidComponent if which == "fluid" else pp.SolidConstants
    names = sorted(cls.SI_units)
    vals = {k: ctx.real(f"c_{k}", 0.0, 16) for k in names}
    case = _case_of({"kind": "materials", "which": which, "scal": scal, "vals": vals})
    c = cls(name="x", units=U, **vals)
    for k in names:
        si = cls.SI_units[k]
        ctx.check("constant-converted", lift(getattr(c, k)) == lift(U.convert_units(vals[k], si)), case)
        ctx.check("constant-back-to-si",
                  lift(U.convert_units(getattr(c, k), si, to_si=True)) == lift(vals[k]), case)
        ctx.check("constants-in-si-kept", lift(c.constants_in_SI[k]) == lift(vals[k]), case)
    back = c.to_units(pp.Units())
    for k in names:
        ctx.check("to-si-units", lift(getattr(back, k)) == lift(vals[k]), case)
    # a second symbolic unit system, reached through to_units, equals direct construction
    U2 = pp.Units()
    for name in ("m", "kg", "K", "mol", "rad"):
        setattr(U2, name, ctx.real(name + "2", 1.0 / 64, 64))
    c2 = c.to_units(U2)
    for k in names:
        ctx.check("to-other-units", lift(getattr(c2, k)) == lift(U2.convert_units(vals[k], cls.SI_units[k])), case)
    m = ctx.reach("end")
    if m is not None:
        ctx.validate_replay("float-run", case, model=m)
    ctx.sample({"materials": which, "n_constants": len(names)})


def run_shard(ex, shard):
    if shard["kind"] == "strings":
        for u in shard["units"]:
            ex.run(h_string, label=f"unit:{u}", args=(u,))
    elif shard["kind"] == "derived":
        ex.run(h_derived, label="derived")
    else:
        for w in ("fluid", "solid"):
            ex.run(h_materials, label=f"materials:{w}", args=(w,))


# ---------------------------------------------------------------- real-code side


def concrete_run(case):
    raise NotImplementedError


def _ref_factor(scal, unit):
    """Independent evaluation of the scaling of a unit string (floats)."""
    s = dict(scal)
    s["s"] = 1.0
    s["Pa"] = s["kg"] / (s["m"] * s["s"] ** 2)
    s["J"] = s["kg"] * s["m"] ** 2 / s["s"] ** 2
    s["N"] = s["kg"] * s["m"] / s["s"] ** 2
    s["W"] = s["kg"] * s["m"] ** 2 / s["s"] ** 3
    s["degree"] = s["rad"] * 180 / np.pi
    f = 1.0
    unit = unit.replace(" ", "")
    if unit in ("", "1", "-"):
        return 1.0
    for part in unit.split("*"):
        if "^" in part:
            b, p = part.split("^")
            f *= s[b] ** float(p)
        else:
            f *= s[part]
    return f


def _close(a, b):
    return abs(a - b) <= 1e-9 * (1 + abs(b))


def replay_case(case):
    import porepy as pp

    scal = {k: float(v) for k, v in case["scal"].items()}
    U = pp.Units(**scal)
    kind = case["kind"]
    if kind == "string":
        unit, v = case["unit"], float(case["v"])
        f = _ref_factor(scal, unit)
        c1 = U.convert_units(v, unit)
        if not _close(c1, v / f):
            return True, f"convert_units({v}, {unit!r}) = {c1}, expected {v / f}"
        if not _close(U.convert_units(c1, unit, to_si=True), v):
            return True, f"round trip through {unit!r} does not return {v}"
        if not _close(U.convert_units(v, _spaced(unit)), c1):
            return True, "whitespace changes the conversion"
        a = np.array(case["a"], dtype=float)
        a0 = a.copy()
        ca = U.convert_units(a, unit)
        if not np.allclose(ca, a0 / f, rtol=1e-9) or not np.array_equal(a, a0):
            return True, f"array conversion wrong or input modified: {ca} / {a}"
        return False, "ok"
    if kind == "derived":
        v = float(case["v"])
        for d, expr in DERIVED.items():
            if not _close(U.convert_units(v, d), U.convert_units(v, expr)):
                return True, f"derived unit {d} != {expr}"
            if not _close(U.convert_units(v, d), v / _ref_factor(scal, expr)):
                return True, f"derived unit {d} has the wrong scaling"
        for dl in ("", "1", "-"):
            if U.convert_units(v, dl) != v:
                return True, "dimensionless conversion changes the value"
        return False, "ok"
    if kind == "materials":
        cls = pp.FluidComponent if case["which"] == "fluid" else pp.SolidConstants
        vals = {k: float(v) for k, v in case["vals"].items()}
        c = cls(name="x", units=U, **vals)
        for k, v in vals.items():
            f = _ref_factor(scal, cls.SI_units[k])
            if not _close(getattr(c, k), v / f):
                return True, f"constant {k}: {getattr(c, k)} != {v / f}"
            if not _close(c.constants_in_SI[k], v):
                return True, f"constants_in_SI[{k}] changed"
        back = c.to_units(pp.Units())
        for k, v in vals.items():
            if not _close(getattr(back, k), v):
                return True, f"constant {k} does not convert back to its SI value"
        return False, "ok"
    return False, "?"
