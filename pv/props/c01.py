"""C01 — forward-mode AD values and Jacobians are exact.

Inductive step: for every overload / library function the real code is executed on
AdArrays with *arbitrary* symbolic values and arbitrary symbolic Jacobians; the result
must equal  (numpy expression on the values,  sum_k d f_i/d x_k * J[k, :]) with the
partial derivatives produced by an independent differentiator (pv/diff.py).
"""
from __future__ import annotations

import math

import numpy as np
import scipy.sparse as sps
import z3

from ..adutil import dense, expected_jac, mk_ad
from ..arr import SymArr, lift_array, sa
from ..sparse import SymSparse
from ..sym import UF, SReal, lift, rv

PID = "C01"
TARGET_PREFIXES = ("numerics/ad/forward_mode", "numerics/ad/functions")

N, M = 2, 3

META = {
    "explanation": "one inductive step per AdArray overload / AD library function on arbitrary "
                   "(value, Jacobian) inputs + bounded depth-2 composites from initAdArrays",
    "assumptions": [
        "floats modelled as exact reals; elementary functions are uninterpreted symbols whose "
        "derivative table (pv/diff.py) is the oracle",
        "inputs inside the smooth domain of each operation (stated per op in 'samples')",
        "structural induction over expression trees (DESIGN 6/C01) lifts the step to all trees",
    ],
    "axioms": ["log(2.0) = float value of math.log(2.0) (ground instance used by 2.0**x)",
               "sqrt(t) = r with r >= 0 and r*r = t"],
    "stubs": ["sps.diags / sparse products on symbolic data -> SymSparse (dense-backed, concrete pattern)"],
    "outside": ["points of non-differentiability", "rounding error", "Jacobians with more than 3 columns "
                "or arrays longer than 3 (the step is entry-wise and size-generic by construction of the code)",
                "AdArray.__setitem__"],
}


def _af():
    import porepy as pp

    return pp.ad.functions


# ---------------------------------------------------------------------------- op table
# name -> (apply(env) -> AdArray, ref(env_values) -> values, deps ('A','B'), domain(env) -> [z3])
# `ref` is written with plain numpy on the *value arrays* only.


def _ops():
    af = _af()
    C = 2.5
    ops = {}

    def add(name, apply, ref, deps="A", domain=None, note=""):
        ops[name] = (apply, ref, deps, domain or (lambda e: []), note)

    # AdArray o AdArray
    add("ad+ad", lambda e: e["A"] + e["B"], lambda a, b, v, S: a + b, "AB")
    add("ad-ad", lambda e: e["A"] - e["B"], lambda a, b, v, S: a - b, "AB")
    add("ad*ad", lambda e: e["A"] * e["B"], lambda a, b, v, S: a * b, "AB")
    add("ad/ad", lambda e: e["A"] / e["B"], lambda a, b, v, S: a / b, "AB", lambda e: _nz(e["b"]), "b != 0")
    add("ad**ad", lambda e: e["A"] ** e["B"], lambda a, b, v, S: a ** b, "AB", lambda e: _pos(e["a"]), "a > 0")
    # AdArray o ndarray
    add("ad+arr", lambda e: e["A"] + e["v"], lambda a, b, v, S: a + v)
    add("ad-arr", lambda e: e["A"] - e["v"], lambda a, b, v, S: a - v)
    add("ad*arr", lambda e: e["A"] * e["v"], lambda a, b, v, S: a * v)
    add("ad/arr", lambda e: e["A"] / e["v"], lambda a, b, v, S: a / v, "A", lambda e: _nz(e["vv"]), "v != 0")
    add("ad**arr", lambda e: e["A"] ** e["v"], lambda a, b, v, S: a ** v, "A", lambda e: _pos(e["a"]), "a > 0")
    # ndarray o AdArray through the reverse methods
    add("arr+ad(r)", lambda e: e["A"].__radd__(e["v"]), lambda a, b, v, S: v + a)
    add("arr-ad(r)", lambda e: e["A"].__rsub__(e["v"]), lambda a, b, v, S: v - a)
    add("arr*ad(r)", lambda e: e["A"].__rmul__(e["v"]), lambda a, b, v, S: v * a)
    add("arr/ad(r)", lambda e: e["A"].__rtruediv__(e["v"]), lambda a, b, v, S: v / a, "A",
        lambda e: _nz(e["a"]), "a != 0")
    add("arr**ad(r)", lambda e: e["A"].__rpow__(e["v"]), lambda a, b, v, S: v ** a, "A",
        lambda e: _pos(e["vv"]), "v > 0")
    # AdArray o scalar, scalar o AdArray
    add("ad+c", lambda e: e["A"] + C, lambda a, b, v, S: a + C)
    add("ad-c", lambda e: e["A"] - C, lambda a, b, v, S: a - C)
    add("ad*c", lambda e: e["A"] * C, lambda a, b, v, S: a * C)
    add("ad/c", lambda e: e["A"] / C, lambda a, b, v, S: a / C)
    add("ad+int", lambda e: e["A"] + 3, lambda a, b, v, S: a + 3)
    add("ad*int", lambda e: e["A"] * 3, lambda a, b, v, S: a * 3)
    add("ad/int", lambda e: e["A"] / 4, lambda a, b, v, S: a / 4)
    add("c+ad", lambda e: C + e["A"], lambda a, b, v, S: C + a)
    add("c-ad", lambda e: C - e["A"], lambda a, b, v, S: C - a)
    add("c*ad", lambda e: C * e["A"], lambda a, b, v, S: C * a)
    add("c/ad", lambda e: C / e["A"], lambda a, b, v, S: C / a, "A", lambda e: _nz(e["a"]), "a != 0")
    add("int-ad", lambda e: 3 - e["A"], lambda a, b, v, S: 3 - a)
    for p in (2, 3.0, -1.0, -2, 0.5, 2.5, 1, 0):
        add(f"ad**{p!r}", (lambda p: lambda e: e["A"] ** p)(p), (lambda p: lambda a, b, v, S: a ** p)(p), "A",
            (lambda p: lambda e: _pos(e["a"]) if (p != int(p) or p <= 0) else [])(p),
            "a > 0" if (p != int(p) or p <= 0) else "")
    add("2.0**ad", lambda e: 2.0 ** e["A"], lambda a, b, v, S: 2.0 ** a)
    add("-ad", lambda e: -e["A"], lambda a, b, v, S: -a)
    add("copy", lambda e: e["A"].copy(), lambda a, b, v, S: a)
    # sparse @ AdArray, slicing
    add("S@ad", lambda e: e["S"] @ e["A"], lambda a, b, v, S: S @ a)
    add("Sreal@ad", lambda e: e["Sreal"] @ e["A"], lambda a, b, v, S: _SREAL @ a)
    add("ad[0]", lambda e: e["A"][0], lambda a, b, v, S: a[np.array([0])])
    add("ad[-1]", lambda e: e["A"][-1], lambda a, b, v, S: a[np.array([-1])])
    add("ad[np.int64(-1)]", lambda e: e["A"][np.int64(-1)], lambda a, b, v, S: a[np.array([-1])])
    add("ad[-2]", lambda e: e["A"][-2], lambda a, b, v, S: a[np.array([-2])])
    add("ad[-2:]", lambda e: e["A"][-2:], lambda a, b, v, S: a[-2:])
    add("ad[[-1,0]]", lambda e: e["A"][np.array([-1, 0])], lambda a, b, v, S: a[np.array([-1, 0])])
    add("ad[1:2]", lambda e: e["A"][1:2], lambda a, b, v, S: a[1:2])
    add("ad[::-1]", lambda e: e["A"][::-1], lambda a, b, v, S: a[::-1])
    add("ad[[1,0,1]]", lambda e: e["A"][np.array([1, 0, 1])], lambda a, b, v, S: a[np.array([1, 0, 1])])
    # function library
    smooth = {
        "exp": None, "sin": None, "cos": None, "sinh": None, "cosh": None, "tanh": None,
        "arctan": None, "arcsinh": None,
        "log": ("pos", "a > 0"), "tan": ("cosnz", "cos a != 0"),
        "arcsin": ("unit", "|a| < 1"), "arccos": ("unit", "|a| < 1"), "arctanh": ("unit", "|a| < 1"),
        "arccosh": ("gt1", "a > 1"),
    }
    for fn, dom in smooth.items():
        d = {None: lambda e: [], "pos": lambda e: _pos(e["a"]),
             "unit": lambda e: [z3.And(x > -1, x < 1) for x in e["a"]],
             "gt1": lambda e: [x > 1 for x in e["a"]],
             "cosnz": lambda e: [UF["cos"](x) != 0 for x in e["a"]]}[dom[0] if dom else None]
        add(f"f.{fn}", (lambda fn: lambda e: getattr(af, fn)(e["A"]))(fn),
            (lambda fn: lambda a, b, v, S: getattr(np, fn)(a))(fn), "A", d, dom[1] if dom else "")
    add("f.abs", lambda e: af.abs(e["A"]), lambda a, b, v, S: np.abs(a), "A", lambda e: _nz(e["a"]), "a != 0")
    add("f.l2_norm(1)", lambda e: af.l2_norm(1, e["A"]), lambda a, b, v, S: np.abs(a), "A",
        lambda e: _nz(e["a"]), "a != 0")
    add("f.l2_norm(2)", lambda e: af.l2_norm(2, e["A"]),
        lambda a, b, v, S: _norm_cols(a, 2), "A",
        lambda e: [e["a"][0] * e["a"][0] + e["a"][1] * e["a"][1] > rv(1e-3)], "|a| > tol")
    add("f.heaviside", lambda e: af.heaviside(0.5, e["A"]), lambda a, b, v, S: np.heaviside(a, 0.5), "A",
        lambda e: _nz(e["a"]), "a != 0 (derivative defined as 0)")
    add("f.heaviside_smooth", lambda e: af.heaviside_smooth(e["A"], 0.125),
        lambda a, b, v, S: 0.5 * (1 + 2 * np.pi ** (-1) * np.arctan(a * 0.125 ** (-1))))
    add("f.maximum(ad,ad)", lambda e: af.maximum(e["A"], e["B"]), lambda a, b, v, S: np.maximum(a, b), "AB",
        lambda e: [x != y for x, y in zip(e["a"], e["b"])], "a != b")
    add("f.maximum(ad,arr)", lambda e: af.maximum(e["A"], e["v"]), lambda a, b, v, S: np.maximum(a, v), "A",
        lambda e: [x != y for x, y in zip(e["a"], e["vv"])], "a != v")
    add("f.maximum(arr,ad)", lambda e: af.maximum(e["v"], e["A"]), lambda a, b, v, S: np.maximum(v, a), "A",
        lambda e: [x != y for x, y in zip(e["a"], e["vv"])], "a != v")
    add("f.maximum(ad,c)", lambda e: af.maximum(e["A"], 0.5), lambda a, b, v, S: np.maximum(a, 0.5), "A",
        lambda e: [x != rv(0.5) for x in e["a"]], "a != 0.5")
    add("f.characteristic_function", lambda e: af.characteristic_function(0.125, e["A"]),
        lambda a, b, v, S: _charfun(a, 0.125), "A",
        lambda e: [z3.And(x != rv(0.125), x != rv(-0.125)) for x in e["a"]], "|a| != tol (derivative defined as 0)")
    add("f.safe_power", lambda e: af.safe_power(-1.0, 0.0, 0.125, e["A"]),
        lambda a, b, v, S: a ** (-1.0), "A",
        lambda e: [z3.Or(x > rv(0.125), x < rv(-0.125)) for x in e["a"]], "|a| > tol")
    add("f.RegularizedHeaviside", lambda e: af.RegularizedHeaviside(af.exp)(e["A"]),
        None, "A", lambda e: _nz(e["a"]), "value = heaviside(a, 0), jac = jac of the regulariser")
    return ops


_SREAL = sps.csr_matrix(np.array([[1.0, 2.0], [0.0, -0.5], [4.0, 0.25]]))


def _norm_cols(a, dim):
    resh = np.reshape(a, (dim, -1), order="F")
    if isinstance(resh, np.ndarray) and resh.dtype == object:
        from ..arr import snorm

        return np.atleast_1d(snorm(resh, axis=0))
    return np.linalg.norm(resh, axis=0)


def _charfun(a, tol):
    if isinstance(a, np.ndarray) and a.dtype == object:
        out = np.empty(a.shape, dtype=object)
        for i, x in enumerate(a.tolist()):
            xe = lift(x)
            out[i] = SReal(z3.If(z3.And(xe <= rv(tol), xe >= rv(-tol)), z3.RealVal(1), z3.RealVal(0)))
        return out.view(SymArr)
    return (np.abs(a) <= tol).astype(float)


def _nz(xs):
    return [x != 0 for x in xs]


def _pos(xs):
    return [x > 0 for x in xs]


def op_names():
    return list(_ops().keys())


def shards(tier, seed):
    names = op_names()
    k = 8
    out = [{"kind": "step", "ops": names[i::k], "n": N, "m": M} for i in range(k)]
    if tier == "thorough":
        out += [{"kind": "step", "ops": names[i::k], "n": 3, "m": 1} for i in range(k)]
        out += [{"kind": "step", "ops": names[i::k], "n": 1, "m": 2} for i in range(k)]
    ncomp = 6 if tier == "quick" else 16
    for i in range(ncomp):
        out.append({"kind": "composite", "part": i, "parts": ncomp,
                    "limit": 8 if tier == "quick" else None})
    return out


def configure(cfg, tier):
    cfg.incremental_first = False
    cfg.sample_cex = True
    cfg.query_timeout_ms = 15000 if tier == "quick" else 60000


def _mk_env(ctx, n, m):
    import porepy as pp

    A = mk_ad(ctx, "a", n, m)
    B = mk_ad(ctx, "b", n, m)
    v = ctx.reals("v", n)
    Sd = np.empty((3, n), dtype=object)
    for i in range(3):
        for j in range(n):
            Sd[i, j] = ctx.real(f"S_{i}_{j}")
    S = SymSparse(Sd, "csr")
    e = {"A": A, "B": B, "v": v, "S": S, "Sreal": _SREAL[:, :n].tocsr() if n <= 2 else
         sps.csr_matrix(np.hstack([_SREAL.toarray(), np.ones((3, n - 2))])),
         "a": [lift(x) for x in A.val.tolist()], "b": [lift(x) for x in B.val.tolist()],
         "vv": [lift(x) for x in v.tolist()]}
    return e


def step_harness(ctx, name, n, m):
    apply, ref, deps, domain, note = _ops()[name]
    if (name == "f.l2_norm(2)" and n != 2) or (name in ("ad[[1,0,1]]", "ad[-2]", "ad[-2:]", "ad[[-1,0]]") and n < 2):
        ctx.reach("end")            # operation not defined for this operand size in the harness
        return None
    e = _mk_env(ctx, n, m)
    for x in e["a"] + e["b"] + e["vv"]:
        ctx.assume(z3.And(x >= -4, x <= 4))
    for c in domain(e):
        ctx.assume(c)
    ctx.assume(UF["log"](rv(2.0)) == rv(math.log(2.0)))
    inputs = {"op": name, "n": n, "m": m, "a": e["A"].val, "Ja": dense(e["A"].jac), "b": e["B"].val,
              "Jb": dense(e["B"].jac), "v": e["v"], "S": e["S"].A_}

    def case(conc):
        c = conc(inputs)
        return {k: (x.tolist() if isinstance(x, np.ndarray) else x) for k, x in c.items()}

    saved = {k: (np.asarray(e[k].val, dtype=object).copy(), dense(e[k].jac).copy()) for k in ("A", "B")}
    saved_v = np.asarray(e["v"], dtype=object).copy()
    out = apply(e)
    # operands must not be modified by the operation (they may be shared sub-expressions)
    for k in ("A", "B"):
        nv, nj = np.asarray(e[k].val, dtype=object), dense(e[k].jac)
        same = nv.shape == saved[k][0].shape and nj.shape == saved[k][1].shape
        ctx.check(f"operand-unchanged[{name}]", bool(same), case)
        if same:
            for x, y in zip(nv.ravel().tolist() + nj.ravel().tolist(),
                            saved[k][0].ravel().tolist() + saved[k][1].ravel().tolist()):
                ctx.check(f"operand-unchanged[{name}]", lift(x) == lift(y), case)
    for x, y in zip(np.asarray(e["v"], dtype=object).tolist(), saved_v.tolist()):
        ctx.check(f"operand-unchanged[{name}]", lift(x) == lift(y), case)
    a, b = saved["A"][0].view(SymArr), saved["B"][0].view(SymArr)
    dep_ads = [e["A"]] + ([e["B"]] if "B" in deps else [])
    if name == "Sreal@ad":
        refv = e["Sreal"] @ a
    elif ref is None:
        refv = np.heaviside(a, 0.0)
    else:
        refv = ref(a, b, e["v"], e["S"])
    refv = np.atleast_1d(np.asarray(refv, dtype=object))
    oval = np.asarray(out.val, dtype=object)
    ojac = dense(out.jac)
    ok_shape = oval.shape == refv.shape and ojac.shape == (refv.size, m)
    ctx.check(f"shape[{name}]", bool(ok_shape), case)
    if not ok_shape:
        return None
    if name == "f.RegularizedHeaviside":
        ej = dense(_af().exp(e["A"]).jac)
    elif name in ("f.heaviside", "f.characteristic_function"):
        ej = np.zeros(ojac.shape, dtype=object)
    else:
        ej = expected_jac(ctx, refv, dep_ads)
    for i in range(refv.size):
        ctx.check(f"val[{name}]", lift(oval[i]) == lift(refv[i]), case)
        for j in range(m):
            ctx.check(f"jac[{name}]", lift(ojac[i, j]) == lift(ej[i, j]), case)
    mod = ctx.reach("end")
    if mod is not None:
        ctx.validate(f"run[{name}]", {"val": oval, "jac": ojac}, case, model=mod, true_functions=True,
                     rtol=1e-6, atol=1e-8)
    ctx.sample({"op": name, "domain": note, "n": n, "m": m, "path": ctx.idx,
                "val0": str(oval[0])[:120] if np.size(oval) else "", "jac00": str(ojac[0, 0])[:160] if np.size(ojac) else ""})
    return None


# ------------------------------------------------------------------ composites (depth 2)

_BIN = ["+", "-", "*", "/"]
_UN = ["exp", "sin", "neg", "sq", "cosh", "arctan"]


def _composites():
    progs = []
    for u in _UN:
        for bop in _BIN:
            progs.append(("un-bin", u, bop))
    for b1 in _BIN:
        for b2 in _BIN:
            progs.append(("bin-bin", b1, b2))
    for u in _UN:
        for b1 in _BIN:
            progs.append(("bin-un", b1, u))
    return progs


_DIVISORS = []


def _apply_bin(op, x, y):
    if op == "/" and isinstance(y, np.ndarray) and y.dtype == object:
        _DIVISORS.extend(np.asarray(y, dtype=object).tolist())
    return {"+": lambda: x + y, "-": lambda: x - y, "*": lambda: x * y, "/": lambda: x / y}[op]()


def _apply_un(u, x, adfun=True):
    af = _af()
    if u == "neg":
        return -x
    if u == "sq":
        return x ** 2
    if adfun:
        return getattr(af, u)(x)
    return getattr(np, u)(x)


def _eval_prog(prog, x, y, c, ad):
    kind = prog[0]
    if kind == "un-bin":      # u(x op y)
        return _apply_un(prog[1], _apply_bin(prog[2], x, y), ad)
    if kind == "bin-bin":     # (x op1 y) op2 (y op1 c)
        return _apply_bin(prog[2], _apply_bin(prog[1], x, y), _apply_bin(prog[1], y, c))
    if kind == "bin-un":      # u(x) op y
        return _apply_bin(prog[1], _apply_un(prog[2], x, ad), y)
    raise ValueError(kind)


def composite_harness(ctx, prog):
    import porepy as pp

    n = 2
    xv = ctx.reals("x", n, 0.25, 4)
    yv = ctx.reals("y", n, 0.25, 4)
    c = lift_array(np.array([1.5, -0.75]))
    X, Y = pp.ad.initAdArrays([xv, yv])
    del _DIVISORS[:]
    ref = _eval_prog(prog, xv, yv, c, False)
    for d in _DIVISORS:  # smooth domain: every divisor is nonzero (bounded away from 0)
        de = lift(d)
        ctx.assume(z3.Or(de >= rv(0.0625), de <= rv(-0.0625)))
    out = _eval_prog(prog, X, Y, c, True)
    inputs = {"prog": list(prog), "x": xv, "y": yv}

    def case(conc):
        cc = conc(inputs)
        return {k: (v.tolist() if isinstance(v, np.ndarray) else v) for k, v in cc.items()}

    from ..diff import zdiff

    oj = dense(out.jac)
    syms = [lift(v) for v in xv.tolist()] + [lift(v) for v in yv.tolist()]
    # denominators on the admitted box
    for i in range(n):
        ctx.check(f"cval[{prog[0]}]", lift(out.val[i]) == lift(ref[i]), case)
        for j, s in enumerate(syms):
            ctx.check(f"cjac[{prog[0]}]", lift(oj[i, j]) == zdiff(lift(ref[i]), s, ctx), case)
    mod = ctx.reach("end")
    if mod is not None:
        ctx.validate("crun", {"val": np.asarray(out.val, dtype=object), "jac": oj}, case, model=mod,
                     true_functions=True, rtol=1e-6, atol=1e-8)
    ctx.sample({"composite": list(prog), "val0": str(out.val[0])[:160]})


def run_shard(ex, shard):
    if shard["kind"] == "step":
        for name in shard["ops"]:
            ex.run(step_harness, label=f"step:{name}:n{shard['n']}m{shard['m']}",
                   args=(name, shard["n"], shard["m"]))
    else:
        progs = _composites()[shard["part"]::shard["parts"]]
        if shard["limit"]:
            progs = progs[: shard["limit"]]
        for p in progs:
            ex.run(composite_harness, label="comp:" + "/".join(p), args=(p,))


# ------------------------------------------------------------------ real-code side


def _real_env(case):
    import porepy as pp

    n, m = case["n"], case["m"]
    A = pp.ad.AdArray(np.array(case["a"], dtype=float), sps.csr_matrix(np.array(case["Ja"], dtype=float).reshape(n, m)))
    B = pp.ad.AdArray(np.array(case["b"], dtype=float), sps.csr_matrix(np.array(case["Jb"], dtype=float).reshape(n, m)))
    v = np.array(case["v"], dtype=float)
    S = sps.csr_matrix(np.array(case["S"], dtype=float).reshape(3, n))
    Sreal = _SREAL[:, :n].tocsr() if n <= 2 else sps.csr_matrix(np.hstack([_SREAL.toarray(), np.ones((3, n - 2))]))
    return {"A": A, "B": B, "v": v, "S": S, "Sreal": Sreal}


def concrete_run(case):
    if "prog" in case:
        import porepy as pp

        x, y = np.array(case["x"], dtype=float), np.array(case["y"], dtype=float)
        X, Y = pp.ad.initAdArrays([x, y])
        out = _eval_prog(tuple(case["prog"]), X, Y, np.array([1.5, -0.75]), True)
        return {"val": out.val, "jac": out.jac.toarray()}
    e = _real_env(case)
    out = _ops()[case["op"]][0](e)
    jac = out.jac.toarray() if sps.issparse(out.jac) else np.asarray(out.jac)
    return {"val": out.val, "jac": jac}


def _num_jac(f, x, h=1e-6):
    f0 = np.atleast_1d(f(x))
    J = np.zeros((f0.size, x.size))
    for k in range(x.size):
        xp, xm = x.copy(), x.copy()
        xp[k] += h
        xm[k] -= h
        J[:, k] = (np.atleast_1d(f(xp)) - np.atleast_1d(f(xm))) / (2 * h)
    return J


def replay_case(case):
    """Real AdArray code on floats vs numpy value + central finite differences."""
    if "prog" in case:
        got = concrete_run(case)
        x, y = np.array(case["x"], dtype=float), np.array(case["y"], dtype=float)
        c = np.array([1.5, -0.75])
        prog = tuple(case["prog"])
        f = lambda z: _eval_prog(prog, z[:2], z[2:], c, False)  # noqa: E731
        z = np.concatenate([x, y])
        rv_, rj = np.atleast_1d(f(z)), _num_jac(f, z)
    else:
        e0 = _real_env(case)
        before = {k: (e0[k].val.copy(), e0[k].jac.toarray().copy()) for k in ("A", "B")}
        _ops()[case["op"]][0](e0)
        for k in ("A", "B"):
            if not (np.array_equal(e0[k].val, before[k][0]) and e0[k].jac.shape == before[k][1].shape
                    and np.array_equal(e0[k].jac.toarray(), before[k][1])):
                return True, (f"operand {k} was modified by {case['op']}: jac {before[k][1].tolist()} -> "
                              f"{e0[k].jac.toarray().tolist()}")
        got = concrete_run(case)
        e = _real_env(case)
        apply, ref, deps, _, _ = _ops()[case["op"]]
        a, b = e["A"].val, e["B"].val
        if case["op"] == "Sreal@ad":
            fa = lambda aa: e["Sreal"] @ aa  # noqa: E731
            fb = None
        elif ref is None:
            return False, "no numerical oracle for this op"
        else:
            fa = lambda aa: np.atleast_1d(ref(aa, b, e["v"], e["S"]))  # noqa: E731
            fb = (lambda bb: np.atleast_1d(ref(a, bb, e["v"], e["S"]))) if "B" in deps else None
        rv_ = np.atleast_1d(fa(a))
        if case["op"] in ("f.heaviside", "f.characteristic_function"):
            rj = np.zeros((rv_.size, case["m"]))
        else:
            rj = _num_jac(fa, a) @ e["A"].jac.toarray()
            if fb is not None:
                rj = rj + _num_jac(fb, b) @ e["B"].jac.toarray()
    gv, gj = np.asarray(got["val"], dtype=float), np.asarray(got["jac"], dtype=float)
    if gv.shape != rv_.shape or gj.shape != rj.shape:
        return True, f"shape mismatch val {gv.shape} vs {rv_.shape}, jac {gj.shape} vs {rj.shape}"
    if not np.all(np.isfinite(rv_)) or not np.all(np.isfinite(rj)):
        return False, "reference not finite at this point"
    sv = 1e-6 * (1 + np.abs(rv_).max())
    sj = 1e-4 * (1 + np.abs(rj).max())
    if np.abs(gv - rv_).max() > sv:
        return True, f"value {gv.tolist()} != numpy {rv_.tolist()}"
    if np.abs(gj - rj).max() > sj:
        return True, f"jacobian {gj.tolist()} != finite-difference chain rule {rj.tolist()}"
    return False, "matches"
