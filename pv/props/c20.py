"""C20 — grid geometry is equivariant under rigid motions (symbolic translations and node
displacements, a family of exact rational rotations incl. embeddings in tilted planes / lines)."""
from __future__ import annotations

import fractions

import numpy as np
import z3

from ..arr import SymArr
from ..sym import SReal, lift, rv
from .c19 import PERT, _grid

PID = "C20"
TARGET_PREFIXES = ("grids/grid", "geometry/map_geometry")

F = fractions.Fraction

# proper rotations with rational entries
ROT = {
    "id": [[1, 0, 0], [0, 1, 0], [0, 0, 1]],
    "z90": [[0, -1, 0], [1, 0, 0], [0, 0, 1]],
    "z345": [[F(3, 5), F(-4, 5), 0], [F(4, 5), F(3, 5), 0], [0, 0, 1]],
    "x90": [[1, 0, 0], [0, 0, -1], [0, 1, 0]],                       # xy-plane -> xz-plane
    "flip": [[1, 0, 0], [0, -1, 0], [0, 0, -1]],                      # rotation by pi about x (normal reversed)
    "tilt": [[F(2, 3), F(-1, 3), F(2, 3)], [F(2, 3), F(2, 3), F(-1, 3)], [F(-1, 3), F(2, 3), F(2, 3)]],
    "tilt2": [[F(1, 3), F(2, 3), F(2, 3)], [F(2, 3), F(-2, 3), F(1, 3)], [F(2, 3), F(1, 3), F(-2, 3)]],
}

META = {
    "explanation": "Grid.compute_geometry executed twice, on a grid with symbolic node displacements and on its image "
                   "under a rigid motion x -> R x + t with SYMBOLIC translation t and R from a family of exact rational "
                   "proper rotations (in-plane 90 degrees and 3-4-5, rotations that embed the grid in the xz-plane, in two "
                   "tilted planes, and one that reverses the plane normal); z3 decides that volumes and face areas are "
                   "unchanged, that cell and face centres are mapped by the motion and that sign * normal is mapped by R",
    "assumptions": ["floats as exact reals", f"2x2 Cartesian / structured triangle grids with one node displaced by symbolic "
                    f"(dx, dy) in [-{PERT}, {PERT}]^2, also with the node order of every third face reversed (fallback branch for "
                    f"inconsistently oriented grids); a 3-cell grid with two concave cells (reflex vertex displaced); 1-d grids with 3 cells and symbolic nodes",
                    "translation components in [-4, 4]", "rotations: the seven rational matrices listed in ROT (det = 1 checked)"],
    "stubs": ["np.sqrt(x): |t| when x is syntactically t*t, otherwise fresh r >= 0 with r*r == x"],
    "outside": ["rotations by angles without rational sine / cosine (a symbolic rotation needs the nested square roots of "
                "DESIGN.md 10.5)", "3-d grids", "more displaced nodes"],
}


def shards(tier, seed):
    out = []
    rots = ["z90", "z345", "x90", "flip", "tilt"] if tier == "quick" else list(ROT)
    for kind in ("cart", "tri"):
        for node in ((4, 0) if tier == "quick" else (4, 0, 1, 5)):
            for r in rots:
                out.append({"dim": 2, "kind": kind, "node": node, "rot": r})
    # grids that are not consistently oriented (fallback branch of the 2-d geometry computation)
    for kind in ("cartflip", "triflip"):
        for r in (["x90", "tilt"] if tier == "quick" else list(ROT)):
            out.append({"dim": 2, "kind": kind, "node": 4, "rot": r})
    # concave cells (negative sub-triangle areas in the oriented branch), reflex / tip vertex displaced
    for node in ((1,) if tier == "quick" else (1, 3, 4)):
        for r in (["x90", "flip", "tilt"] if tier == "quick" else list(ROT)):
            out.append({"dim": 2, "kind": "concave", "node": node, "rot": r})
    for r in (["z345", "tilt"] if tier == "quick" else list(ROT)):
        out.append({"dim": 1, "n": 3, "rot": r})
    return out


def configure(cfg, tier):
    cfg.incremental_first = False
    cfg.slice_first = True
    cfg.simplify_div = True
    cfg.fresh_branches = True
    cfg.interval_first = True
    cfg.branch_timeout_ms = 20000
    cfg.query_timeout_ms = 60000 if tier == "quick" else 240000
    cfg.max_paths = 60


def _apply(R, t, N):
    out = np.empty(N.shape, dtype=object)
    for j in range(N.shape[1]):
        for i in range(3):
            acc = t[i]
            for k in range(3):
                if R[i][k] != 0:
                    acc = acc + SReal(rv(R[i][k])) * N[k, j]
            out[i, j] = acc
    return out


def _eq_vec(a, b):
    return z3.And([lift(x) == lift(y) for x, y in zip(a, b)])


def harness(ctx, shard):
    import porepy as pp

    R = ROT[shard["rot"]]
    t = [ctx.real(f"t{i}", -4, 4) for i in range(3)]
    if shard["dim"] == 2:
        g = _grid(shard["kind"])
        g2 = _grid(shard["kind"])
        ref = g.nodes.copy()
        N = np.empty(ref.shape, dtype=object)
        for i in range(ref.shape[1]):
            for d in range(3):
                N[d, i] = SReal(rv(float(ref[d, i])))
        dv = [ctx.real(f"d{d}", -PERT, PERT) for d in range(2)]
        for d in range(2):
            N[d, shard["node"]] = N[d, shard["node"]] + dv[d]
        inputs = {"shard": shard, "t": t, "d": dv}
    else:
        n = shard["n"]
        xs = [ctx.real(f"x{i}", -4, 8) for i in range(n + 1)]
        for a, b in zip(xs, xs[1:]):
            ctx.assume(lift(b) - lift(a) >= rv(1.0 / 64))
        ctx.assume(lift(xs[-1]) - lift(xs[0]) >= rv(0.25))
        g = pp.TensorGrid(np.arange(n + 1, dtype=float))
        g2 = pp.TensorGrid(np.arange(n + 1, dtype=float))
        N = np.empty((3, n + 1), dtype=object)
        N.fill(SReal(rv(0)))
        for i, x in enumerate(xs):
            N[0, i] = x
        inputs = {"shard": shard, "t": t, "x": xs}

    def case(conc):
        c = conc(inputs)
        return {k: (v if k == "shard" else [float(x) for x in v]) for k, v in c.items()}

    g.nodes = N.copy().view(SymArr)
    g.compute_geometry()
    g2.nodes = _apply(R, t, N).view(SymArr)
    g2.compute_geometry()
    G = lambda a: np.asarray(a, dtype=object)  # noqa: E731
    for c in range(g.num_cells):
        ctx.check("cell-volume-invariant", lift(G(g2.cell_volumes)[c]) == lift(G(g.cell_volumes)[c]), case)
        ctx.check("cell-centre-moves-with-the-grid",
                  _eq_vec(G(g2.cell_centers)[:, c], _apply(R, t, G(g.cell_centers)[:, [c]])[:, 0]), case)
    zero = [SReal(rv(0))] * 3
    cf = g.cell_faces.tocsc()
    for f in range(g.num_faces):
        ctx.check("face-area-invariant", lift(G(g2.face_areas)[f]) == lift(G(g.face_areas)[f]), case)
        ctx.check("face-centre-moves-with-the-grid",
                  _eq_vec(G(g2.face_centers)[:, f], _apply(R, t, G(g.face_centers)[:, [f]])[:, 0]), case)
        # normals are rotated (the orientation convention sign * normal = outward is kept, so equality up to
        # the motion is required exactly; for the normal-reversing rotations of planar grids the in-plane
        # normal is still R n)
        ctx.check("face-normal-rotates-with-the-grid",
                  _eq_vec(G(g2.face_normals)[:, f], _apply(R, zero, G(g.face_normals)[:, [f]])[:, 0]), case)
    m = ctx.reach("end")
    if m is not None:
        ctx.validate_replay("float-run", case, model=m)
    ctx.sample({"shard": shard, "path": ctx.idx})


def run_shard(ex, shard):
    ex.run(harness, label=str(shard), args=(shard,))


# ---------------------------------------------------------------- real-code side


def concrete_run(case):
    raise NotImplementedError


def replay_case(case):
    import porepy as pp

    shard = case["shard"]
    R = np.array([[float(x) for x in row] for row in ROT[shard["rot"]]])
    t = np.array(case["t"], dtype=float).reshape((3, 1))
    if shard["dim"] == 2:
        g, g2 = _grid(shard["kind"]), _grid(shard["kind"])
        g.nodes[0, shard["node"]] += case["d"][0]
        g.nodes[1, shard["node"]] += case["d"][1]
    else:
        x = np.array(case["x"], dtype=float)
        g, g2 = pp.TensorGrid(x), pp.TensorGrid(x)
    g.compute_geometry()
    g2.nodes = R @ g.nodes + t
    g2.compute_geometry()
    problems = []
    if not np.allclose(g2.cell_volumes, g.cell_volumes, atol=1e-10):
        problems.append(f"cell volumes change: {g.cell_volumes.tolist()} -> {g2.cell_volumes.tolist()}")
    if not np.allclose(g2.face_areas, g.face_areas, atol=1e-10):
        problems.append("face areas change")
    if not np.allclose(g2.cell_centers, R @ g.cell_centers + t, atol=1e-10):
        problems.append("cell centres do not move with the grid")
    if not np.allclose(g2.face_centers, R @ g.face_centers + t, atol=1e-10):
        problems.append("face centres do not move with the grid")
    if not np.allclose(g2.face_normals, R @ g.face_normals, atol=1e-10):
        bad = np.where(np.abs(g2.face_normals - R @ g.face_normals).max(axis=0) > 1e-10)[0]
        problems.append(f"face normals of faces {bad.tolist()} are not the rotated normals")
    if problems:
        return True, f"{shard} t={case['t']} displacement {case.get('d', case.get('x'))}: {problems[:3]}"
    return False, "equivariant"
