"""C46 — sparse N-d arrays behave like a dictionary of coordinates (case split on coordinates).

Coordinates are enumerated small integers (a symbolic integer would be concretised by the
np.unique / KD-tree kernels at once); the stored VALUES are symbolic and z3 decides that
every read returns what a plain dictionary holds under the same operations.
"""
from __future__ import annotations

import itertools
import random

import numpy as np
import z3

from ..arr import SymArr
from ..sym import lift

PID = "C46"
TARGET_PREFIXES = ("utils/array_operations",)

META = {
    "explanation": "SparseNdArray.add/get under enumerated batches of integer coordinates (duplicates inside and "
                   "across batches, additive and overwriting) with symbolic values, against a Python dict",
    "assumptions": ["floats as exact reals", "coordinates in a 3-point box per axis, dimension 1-2",
                    "scalar values (value_dim 1) and value_dim 2"],
    "stubs": ["intersect_sets runs natively on the concrete integer coordinates (scipy KDTree)",
              "the empty float value storage of a new SparseNdArray is given object dtype by the harness"],
    "outside": ["larger coordinate boxes / more batches than the bound"],
}


def _batches(dim, maxlen):
    pts = list(itertools.product(range(3), repeat=dim))
    out = []
    for L in range(1, maxlen + 1):
        out += [list(c) for c in itertools.product(pts, repeat=L)]
    return out


def shards(tier, seed):
    rnd = random.Random(46 + seed)
    hist = []
    for dim in (1, 2):
        bs = _batches(dim, 2)
        nb = 3
        n = 260 if tier == "quick" else 3000
        for _ in range(n):
            h = []
            for _ in range(rnd.randint(2, nb)):
                h.append({"coords": rnd.choice(bs), "additive": rnd.random() < 0.4})
            hist.append({"dim": dim, "vdim": 1 if rnd.random() < 0.8 else 2, "batches": h})
    # all 1-d two-batch overwrite histories with up to 2 points per batch (exhaustive core)
    bs1 = _batches(1, 2)
    for b1, b2 in itertools.product(bs1, repeat=2):
        hist.append({"dim": 1, "vdim": 1, "batches": [{"coords": b1, "additive": False},
                                                      {"coords": b2, "additive": False}]})
        if tier == "thorough":
            hist.append({"dim": 1, "vdim": 1, "batches": [{"coords": b1, "additive": False},
                                                          {"coords": b2, "additive": True}]})
    # single batches of up to 4 (thorough: 5) points in any order, with and without duplicates,
    # followed by a second overwriting batch: exhaustive in 1-d
    big = _batches(1, 4 if tier == "quick" else 5)
    for b1 in big:
        if len(b1) >= 3:
            hist.append({"dim": 1, "vdim": 1, "batches": [{"coords": b1, "additive": False}]})
            hist.append({"dim": 1, "vdim": 1, "batches": [{"coords": [(1,)], "additive": False},
                                                          {"coords": b1, "additive": len(b1) % 2 == 0}]})
    for _ in range(60 if tier == "quick" else 600):
        pts2 = list(itertools.product(range(3), repeat=2))
        b = [rnd.choice(pts2) for _ in range(rnd.randint(3, 5))]
        hist.append({"dim": 2, "vdim": 1, "batches": [{"coords": b, "additive": False},
                                                      {"coords": [rnd.choice(pts2) for _ in range(3)],
                                                       "additive": rnd.random() < 0.5}]})
    # three batches: the stored order differs from the sorted order only after two earlier batches
    singles = [[(i,)] for i in range(3)]
    for b1, b2 in itertools.product(singles, repeat=2):
        for b3 in bs1:
            for add3 in ((False, True) if tier == "thorough" else (False,)):
                hist.append({"dim": 1, "vdim": 1, "batches": [{"coords": b1, "additive": False},
                                                              {"coords": b2, "additive": False},
                                                              {"coords": b3, "additive": add3}]})
    k = 8 if tier == "quick" else 16
    return [{"hists": hist[i::k]} for i in range(k)]


def _drive(h, values_of, check, symbolic=False):
    import porepy as pp

    dim, vdim = h["dim"], h["vdim"]
    arr = pp.array_operations.SparseNdArray(dim, value_dim=vdim)
    if symbolic:
        # the (empty) value storage is created with np.ndarray(..., dtype=float); lift its dtype
        arr._values = arr._values.astype(object).view(SymArr)
    ref = {}
    for bi, b in enumerate(h["batches"]):
        coords = [np.array(c) for c in b["coords"]]
        vals = values_of(f"b{bi}", (vdim, len(coords)))
        arr.add(coords, vals if vdim > 1 else vals[0], additive=b["additive"])
        # dictionary semantics
        if b["additive"]:
            for j, c in enumerate(b["coords"]):
                key = tuple(c)
                ref[key] = (ref[key] + vals[:, j]) if key in ref else vals[:, j]
        else:
            # inside a batch the last duplicate wins; an overwrite replaces the old value
            last = {}
            for j, c in enumerate(b["coords"]):
                last[tuple(c)] = vals[:, j]
            ref.update(last)
        for key, want in ref.items():
            got = arr.get([np.array(key)])
            check("read-equals-dictionary", ("eq", np.asarray(got, dtype=object).reshape(-1), want))
        # several coordinates in one get, in reverse key order
        keys = list(ref)[::-1]
        got = arr.get([np.array(k) for k in keys])
        check("multi-read", ("eq", np.asarray(got, dtype=object),
                             np.stack([np.asarray(ref[k], dtype=object) for k in keys], axis=1)))
        missing = [p for p in itertools.product(range(3), repeat=dim) if p not in ref]
        for p in missing[:2]:
            try:
                arr.get([np.array(p)])
                check("unassigned-coordinate-raises", False)
            except ValueError:
                check("unassigned-coordinate-raises", True)
        check("no-duplicate-storage", arr._coords.shape[1] == len(ref))


def harness(ctx, h):
    from ..sym import PathAbort

    def case(conc):
        return {"hist": h}

    def values_of(tag, shape):
        return ctx.reals(tag, shape, -8, 8)

    def check(name, claim):
        if isinstance(claim, tuple):
            a, b = np.asarray(claim[1], dtype=object), np.asarray(claim[2], dtype=object)
            if a.shape != b.shape:
                ctx.check(name, False, case)
            else:
                ctx.check(name, z3.And([lift(x) == lift(y) for x, y in zip(a.ravel().tolist(), b.ravel().tolist())]),
                          case)
        else:
            ctx.check(name, bool(claim), case)

    try:
        _drive(h, values_of, check, symbolic=True)
    except PathAbort:
        raise
    except Exception as e:  # noqa: BLE001
        ctx.check(f"api-does-not-raise[{type(e).__name__}]", False, case)
    ctx.reach("end")
    if ctx.rep.paths % 7 == 0:
        ctx.validate_replay("float-run", case)
    if ctx.rep.paths % 97 == 0:
        ctx.sample({"history": h})


def run_shard(ex, shard):
    for h in shard["hists"]:
        ex.run(harness, label=str(h)[:80], args=(h,))


# ---------------------------------------------------------------- real-code side


def concrete_run(case):
    raise NotImplementedError


def replay_case(case):
    rng = np.random.default_rng(3)
    problems = []

    def values_of(tag, shape):
        return rng.integers(1, 50, size=shape).astype(float) * 0.5

    def check(name, claim):
        if isinstance(claim, tuple):
            a, b = np.asarray(claim[1], dtype=float), np.asarray(claim[2], dtype=float)
            ok = a.shape == b.shape and np.allclose(a, b)
            if not ok:
                problems.append(f"{name}: got {a.tolist()}, dictionary holds {b.tolist()}")
        elif not claim:
            problems.append(name)

    try:
        _drive(case["hist"], values_of, check)
    except Exception as e:  # noqa: BLE001
        problems.append(f"raised {type(e).__name__}: {e}")
    if problems:
        return True, f"history {case['hist']}: {problems[0]}"
    return False, "dictionary semantics"
