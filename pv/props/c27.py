"""C27 — global projection operators are consistent permutations (case split on grid lists; the
vectors the operators act on are symbolic, so every identity is decided for all vectors)."""
from __future__ import annotations

import itertools
import random

import numpy as np
import z3

from ..arr import SymArr
from ..sym import lift

PID = "C27"
TARGET_PREFIXES = ("numerics/ad/grid_operators", "grids/boundary_grid")

META = {
    "explanation": "SubdomainProjections (cell/face restriction and prolongation), MortarProjections (all eight maps, "
                   "sign_of_mortar_sides) and BoundaryProjection built for ordered lists of the grids of a 2-fracture "
                   "md-grid, applied to symbolic vectors",
    "assumptions": ["floats as exact reals", "md-grid: 2x2 Cartesian matrix, two crossing fractures, one 0-d "
                    "intersection, 4 interfaces (matching mortar grids)", "vector dimension 1-3"],
    "stubs": ["real sparse @ symbolic vector -> exact lifted product"],
    "outside": ["non-matching mortar grids (C26)", "other md-grids"],
}

_ENV = {}


def _env():
    if _ENV:
        return _ENV
    import porepy as pp

    mdg, _ = pp.mdg_library.square_with_orthogonal_fractures("cartesian", {"cell_size": 0.5}, fracture_indices=[0, 1])
    _ENV.update(mdg=mdg, sds=mdg.subdomains(), intfs=mdg.interfaces())
    return _ENV


def shards(tier, seed):
    e = _env()
    ns = len(e["sds"])
    rnd = random.Random(27 + seed)
    lists = []
    for r in range(1, ns + 1):
        for combo in itertools.permutations(range(ns), r):
            lists.append(list(combo))
    if tier == "quick":
        rnd.shuffle(lists)
        lists = [list(range(ns)), list(range(ns))[::-1]] + lists[:14]
    out = []
    for lst in lists:
        for dim in ((1, 2) if tier == "quick" else (1, 2, 3)):
            out.append({"kind": "subdomain", "list": lst, "dim": dim})
    # mortar and boundary projections: subdomain order x interface order
    sd_orders = [list(range(ns)), list(range(ns))[::-1], [1, 0, 3, 2]]
    ni = len(e["intfs"])
    codim1 = [j for j, m in enumerate(e["intfs"]) if m.codim == 1]
    i_orders = [codim1, codim1[::-1], codim1[1:] + codim1[:1], codim1[:2]]
    for so in sd_orders:
        for io in i_orders:
            for dim in ((1, 2) if tier == "quick" else (1, 2, 3)):
                out.append({"kind": "mortar", "sds": so, "intfs": io, "dim": dim})
        for dim in (1, 2):
            out.append({"kind": "boundary", "sds": so, "dim": dim})
    k = 8 if tier == "quick" else 16
    return [{"cases": out[i::k]} for i in range(k)]


def _eq(ctx, name, got, exp, case):
    g, e = np.asarray(got, dtype=object).ravel(), np.asarray(exp, dtype=object).ravel()
    if g.shape != e.shape:
        ctx.check(name + "-shape", False, case)
        return
    ctx.check(name, z3.And([lift(a) == lift(b) for a, b in zip(g.tolist(), e.tolist())]) if g.size else True, case)


def _apply(op, v):
    return op._mat @ v


def h_subdomain(ctx, c):
    import porepy as pp

    e = _env()
    full = list(e["sds"])
    lst = [full[i] for i in c["list"]]
    dim = c["dim"]
    case = lambda conc: {"case": c}  # noqa: E731
    for kind, nattr in (("cell", "num_cells"), ("face", "num_faces")):
        sizes = [getattr(g, nattr) * dim for g in lst]
        offs = np.concatenate([[0], np.cumsum(sizes)]).astype(int)
        tot = int(offs[-1])
        proj = pp.ad.SubdomainProjections(lst, dim=dim)
        R_all = getattr(proj, f"{kind}_restriction")(lst)
        P_all = getattr(proj, f"{kind}_prolongation")(lst)
        v = ctx.reals(f"v{kind}", tot)
        # all listed grids together: identity / permutation following the list order
        _eq(ctx, f"{kind}:restrict-all-is-identity", _apply(R_all, v), v, case)
        _eq(ctx, f"{kind}:prolong-all-is-identity", _apply(P_all, v), v, case)
        for k, g in enumerate(lst):
            R, P = getattr(proj, f"{kind}_restriction")([g]), getattr(proj, f"{kind}_prolongation")([g])
            blk = v[offs[k]:offs[k + 1]]
            _eq(ctx, f"{kind}:restriction-picks-block", _apply(R, v), blk, case)
            w = ctx.reals(f"w{kind}{k}", sizes[k])
            exp = np.zeros(tot, dtype=object)
            exp[offs[k]:offs[k + 1]] = w
            _eq(ctx, f"{kind}:prolongation-places-block", _apply(P, w), exp, case)
            _eq(ctx, f"{kind}:restrict-after-prolong", _apply(R, _apply(P, w)), w, case)
        # sub-list in another order: restriction = concatenation of blocks in the order asked
        if len(lst) >= 2:
            sub = [lst[-1], lst[0]]
            Rs = getattr(proj, f"{kind}_restriction")(sub)
            Ps = getattr(proj, f"{kind}_prolongation")(sub)
            exp = np.concatenate([np.asarray(v, dtype=object)[offs[len(lst) - 1]:offs[len(lst)]],
                                  np.asarray(v, dtype=object)[offs[0]:offs[1]]])
            _eq(ctx, f"{kind}:sublist-restriction-order", _apply(Rs, v), exp, case)
            ws = ctx.reals(f"ws{kind}", len(exp))
            _eq(ctx, f"{kind}:sublist-restrict-after-prolong", _apply(Rs, _apply(Ps, ws)), ws, case)
    m = ctx.reach("end")
    if m is not None and ctx.rep.paths % 3 == 0:
        ctx.validate_replay("float-run", case, model=m)
    if ctx.rep.paths % 13 == 0:
        ctx.sample({"case": c})


_MORTAR_MAPS = [
    ("mortar_to_primary_int", False, True), ("mortar_to_primary_avg", False, True),
    ("primary_to_mortar_int", True, True), ("primary_to_mortar_avg", True, True),
    ("mortar_to_secondary_int", False, False), ("mortar_to_secondary_avg", False, False),
    ("secondary_to_mortar_int", True, False), ("secondary_to_mortar_avg", True, False),
]


def h_mortar(ctx, c):
    import porepy as pp

    e = _env()
    mdg = e["mdg"]
    sds = [e["sds"][i] for i in c["sds"]]
    intfs = [e["intfs"][j] for j in c["intfs"]]
    dim = c["dim"]
    case = lambda conc: {"case": c}  # noqa: E731
    mp = pp.ad.MortarProjections(mdg, sds, intfs, dim=dim)
    m_sizes = [m.num_cells * dim for m in intfs]
    m_offs = np.concatenate([[0], np.cumsum(m_sizes)]).astype(int)
    f_offs = np.concatenate([[0], np.cumsum([g.num_faces * dim for g in sds])]).astype(int)
    c_offs = np.concatenate([[0], np.cumsum([g.num_cells * dim for g in sds])]).astype(int)
    lam = ctx.reals("lam", int(m_offs[-1]))
    xf = ctx.reals("xf", int(f_offs[-1]))
    xc = ctx.reals("xc", int(c_offs[-1]))
    for name, to_mortar, is_primary in _MORTAR_MAPS:
        op = getattr(mp, name)()
        offs = f_offs if is_primary else c_offs
        src_sub = xf if is_primary else xc
        if to_mortar:
            got = _apply(op, src_sub)
            exp = np.zeros(int(m_offs[-1]), dtype=object)
            for j, m in enumerate(intfs):
                hi, lo = mdg.interface_to_subdomain_pair(m)
                g = hi if is_primary else lo
                k = sds.index(g)
                exp[m_offs[j]:m_offs[j + 1]] = getattr(m, name)(dim) @ src_sub[offs[k]:offs[k + 1]]
            _eq(ctx, f"{name}:per-interface-at-global-offsets", got, exp, case)
        else:
            got = _apply(op, lam)
            exp = np.zeros(int(offs[-1]), dtype=object)
            for j, m in enumerate(intfs):
                hi, lo = mdg.interface_to_subdomain_pair(m)
                g = hi if is_primary else lo
                k = sds.index(g)
                loc = getattr(m, name)(dim) @ lam[m_offs[j]:m_offs[j + 1]]
                exp[offs[k]:offs[k + 1]] = np.asarray(exp[offs[k]:offs[k + 1]], dtype=object) + np.asarray(loc, dtype=object)
            _eq(ctx, f"{name}:per-interface-at-global-offsets", got, exp, case)
    sgn = mp.sign_of_mortar_sides()
    exp = np.concatenate([np.asarray(m.sign_of_mortar_sides(dim) @ lam[m_offs[j]:m_offs[j + 1]], dtype=object)
                          for j, m in enumerate(intfs)])
    _eq(ctx, "sign-of-mortar-sides", _apply(sgn, lam), exp, case)
    m = ctx.reach("end")
    if m is not None and ctx.rep.paths % 2 == 0:
        ctx.validate_replay("float-run", case, model=m)
    if ctx.rep.paths % 7 == 0:
        ctx.sample({"case": c})


def h_boundary(ctx, c):
    import porepy as pp

    e = _env()
    mdg = e["mdg"]
    sds = [e["sds"][i] for i in c["sds"]]
    dim = c["dim"]
    case = lambda conc: {"case": c}  # noqa: E731
    bp = pp.ad.BoundaryProjection(mdg, sds, dim=dim)
    f_offs = np.concatenate([[0], np.cumsum([g.num_faces * dim for g in sds])]).astype(int)
    xf = ctx.reals("xf", int(f_offs[-1]))
    got = _apply(bp.subdomain_to_boundary, xf)
    parts = []
    for k, g in enumerate(sds):
        if g.dim > 0:
            bg = mdg.subdomain_to_boundary_grid(g)
            parts.append(np.asarray(bg.projection(dim) @ xf[f_offs[k]:f_offs[k + 1]], dtype=object))
    exp = np.concatenate(parts) if parts else np.zeros(0, dtype=object)
    _eq(ctx, "subdomain-to-boundary:per-grid-blocks", got, exp, case)
    yb = ctx.reals("yb", len(exp))
    back = _apply(bp.boundary_to_subdomain, yb)
    _eq(ctx, "boundary-restrict-after-prolong", _apply(bp.subdomain_to_boundary, back), yb, case)
    ctx.reach("end")
    ctx.sample({"case": c}) if ctx.rep.paths % 5 == 0 else None


def run_shard(ex, shard):
    _env()
    for c in shard["cases"]:
        h = {"subdomain": h_subdomain, "mortar": h_mortar, "boundary": h_boundary}[c["kind"]]
        ex.run(h, label=str(c), args=(c,))


# ---------------------------------------------------------------- real-code side


def concrete_run(case):
    raise NotImplementedError


def replay_case(case):
    """Float re-run of the same identities with integer-valued random vectors."""
    c = case["case"]
    rng = np.random.default_rng(11)
    problems = []

    class Ctx:
        class rep:
            paths = 1

        def reals(self, name, n, *a):
            return rng.integers(-9, 10, size=n).astype(float)

        def check(self, name, claim, *_a, **_k):
            if hasattr(claim, "sexpr"):
                claim = z3.is_true(z3.simplify(claim))
            if not bool(claim):
                problems.append(name)

        def reach(self, *_a, **_k):
            return None

        def sample(self, *_a):
            pass

    _env()
    h = {"subdomain": h_subdomain, "mortar": h_mortar, "boundary": h_boundary}[c["kind"]]
    try:
        h(Ctx(), c)
    except Exception as e:  # noqa: BLE001
        problems.append(f"raised {type(e).__name__}: {e}")
    if problems:
        return True, f"{c}: violated {sorted(set(problems))[:4]}"
    return False, "consistent"
