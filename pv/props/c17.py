"""C17 — upwinding picks the upstream cell and transports conservatively."""
from __future__ import annotations

import itertools

import numpy as np
import z3

from ..adutil import dense
from ..arr import SymArr, lift_array
from ..sym import SReal, lift, rv

PID = "C17"
TARGET_PREFIXES = ("numerics/fv/upwind",)

META = {
    "explanation": "Upwind.discretize on symbolic face fluxes (the code's own sign tests fork the paths) for "
                   "enumerated boundary-type assignments and 1-2 components; explicit transport step assembled by "
                   "the harness from the produced matrices",
    "assumptions": ["floats as exact reals", "fluxes non-zero for the upstream-selection clause",
                    "transport clause: no-flow boundaries, divergence-free flux, dt below the CFL limit "
                    "min_i V_i / outflow_i, cell volumes symbolic positive"],
    "stubs": ["sparse constructors on symbolic data -> SymSparse"],
    "outside": ["grids larger than 2x2", "UpwindCoupling on interfaces"],
}


def shards(tier, seed):
    out = []
    bcs = {"line3": [[1, 1], [0, 0], [1, 0], [0, 1]],
           "cart2x1": [[1] * 6, [0] * 6, [1, 0, 1, 0, 1, 0], [1, 1, 0, 0, 1, 0]]}
    if tier == "thorough":
        bcs["cart2x1"] += [[0, 1, 0, 1, 0, 1], [1, 0, 0, 1, 1, 0], [0, 0, 1, 1, 0, 1]]
    for topo, lst in bcs.items():
        for bc in lst:
            for nc in (1, 2):
                out.append({"kind": "select", "topo": topo, "bc": bc, "ncomp": nc})
    out.append({"kind": "transport", "topo": "cart2x2", "ncomp": 1})
    out.append({"kind": "transport", "topo": "cart2x2", "ncomp": 2})
    return out


def configure(cfg, tier):
    cfg.incremental_first = True
    cfg.max_paths = 5000


def _grid(topo):
    import porepy as pp

    g = {"line3": lambda: pp.CartGrid([3], [3.0]), "cart2x1": lambda: pp.CartGrid([2, 1], [2.0, 1.0]),
         "cart2x2": lambda: pp.CartGrid([2, 2], [2.0, 2.0])}[topo]()
    g.compute_geometry()
    return g


def _discretize(g, q, bc, ncomp):
    import porepy as pp

    data = pp.initialize_data(g, {}, "transport", {"darcy_flux": q, "bc": bc, "num_components": ncomp})
    up = pp.Upwind("transport")
    up.discretize(g, data)
    md = data[pp.DISCRETIZATION_MATRICES]["transport"]
    return (md[up.upwind_matrix_key], md[up.bound_transport_dir_matrix_key], md[up.bound_transport_neu_matrix_key])


def _expected_select(g, qsign, is_dir, ncomp):
    """Independent oracle of the three matrices from the flux signs (+1 / -1 per face)."""
    nf, ncell = g.num_faces, g.num_cells
    cf = g.cell_faces.tocsr()
    U = np.zeros((nf, ncell))
    D = np.zeros((nf, nf))
    N = np.zeros((nf, nf))
    bfaces = set(g.get_all_boundary_faces().tolist())
    for f in range(nf):
        cells = cf[f].indices
        sgns = cf[f].data
        if f in bfaces:
            c, s = int(cells[0]), int(sgns[0])
            if not is_dir[f]:
                N[f, f] = s            # Neumann: datum enters with the divergence sign, no cell selected
                continue
            outflow = (qsign[f] * s) > 0
            if outflow:
                U[f, c] = 1
            else:
                D[f, f] = 1            # Dirichlet inflow: boundary value, no cell
        else:
            # the flux leaves the cell for which sign(q) * cell_face sign is positive
            for c, s in zip(cells, sgns):
                if qsign[f] * s > 0:
                    U[f, int(c)] = 1
    I = np.eye(ncomp)
    return np.kron(U, I), np.kron(D, I), np.kron(N, I)


def h_select(ctx, shard):
    import porepy as pp

    g = _grid(shard["topo"])
    nf = g.num_faces
    bfaces = g.get_all_boundary_faces()
    is_dir = np.zeros(nf, dtype=bool)
    for k, f in enumerate(bfaces):
        is_dir[f] = bool(shard["bc"][k])
    bc = pp.BoundaryCondition(g, bfaces[is_dir[bfaces]], ["dir"] * int(is_dir[bfaces].sum()))
    q = ctx.reals("q", nf, -4, 4)
    for f in range(nf):
        ctx.assume(lift(q[f]) != 0)
    inputs = {"q": q.copy()}

    def case(conc):
        return {"shard": shard, "q": np.asarray(conc(inputs)["q"]).tolist()}

    U, D, N = _discretize(g, q, bc, shard["ncomp"])
    # on this path every sign test of the code was decided: read the signs back through the solver
    qsign = []
    for f in range(nf):
        qsign.append(1 if bool(q[f] > 0) else -1)
    eU, eD, eN = _expected_select(g, qsign, is_dir, shard["ncomp"])
    for name, got, exp in (("upwind-matrix", U, eU), ("dirichlet-inflow-matrix", D, eD), ("neumann-matrix", N, eN)):
        gd = dense(got)
        ok = gd.shape == exp.shape
        ctx.check(f"{name}-shape", bool(ok), case)
        if ok:
            same = all(float(z3.simplify(lift(a)).as_fraction()) == float(b) if not isinstance(a, (int, float))
                       else float(a) == float(b) for a, b in zip(gd.ravel().tolist(), exp.ravel().tolist()))
            ctx.check(name, bool(same), case)
    m = ctx.reach("end")
    if m is not None and ctx.idx % 4 == 0:
        ctx.validate_replay("float-run", case, model=m)
    if ctx.idx < 2:
        ctx.sample({"shard": shard, "path": ctx.idx, "flux signs": qsign})


def h_transport(ctx, shard):
    import porepy as pp

    g = _grid(shard["topo"])
    nf, ncell, ncomp = g.num_faces, g.num_cells, shard["ncomp"]
    bfaces = g.get_all_boundary_faces()
    internal = np.setdiff1d(np.arange(nf), bfaces)
    bc = pp.BoundaryCondition(g)           # all Neumann: no-flow boundaries
    q = np.zeros(nf, dtype=object)
    for f in internal:
        q[f] = ctx.real(f"q{f}", -4, 4)
    q = q.view(SymArr)
    div = g.cell_faces.T.toarray()
    for c in range(ncell):                 # divergence-free
        ctx.assume(z3.Sum([lift(q[f]) * int(div[c, f]) for f in internal if div[c, f] != 0]) == 0)
    V = ctx.reals("V", ncell, 0.25, 4)
    conc_ = ctx.reals("c", ncell * ncomp, -4, 4)
    dt = ctx.real("dt", 0, 8)
    inputs = {"q": q.copy(), "V": V, "c": conc_, "dt": dt}

    def case(conc):
        c = conc(inputs)
        return {"shard": shard, **{k: (np.asarray(v).tolist() if isinstance(v, np.ndarray) else v)
                                   for k, v in c.items()}}

    U, D, N = _discretize(g, q, bc, ncomp)
    Ud = dense(U)
    # explicit step per component:  c_new = c - dt / V * div( q * (U c) )
    for k in range(ncomp):
        ck = [conc_[c * ncomp + k] for c in range(ncell)]
        face_val = [z3.Sum([lift(Ud[f * ncomp + k, c * ncomp + k]) * lift(ck[c]) for c in range(ncell)]
                           + [z3.RealVal(0)]) for f in range(nf)]
        flux = [lift(q[f]) * face_val[f] for f in range(nf)]
        outflow = []
        cnew = []
        for c in range(ncell):
            o = z3.Sum([z3.If(lift(q[f]) * int(div[c, f]) > 0, lift(q[f]) * int(div[c, f]), z3.RealVal(0))
                        for f in internal if div[c, f] != 0] + [z3.RealVal(0)])
            outflow.append(o)
            d = z3.Sum([flux[f] * int(div[c, f]) for f in range(nf) if div[c, f] != 0])
            cnew.append(lift(ck[c]) - lift(dt) * d / lift(V[c]))
        for c in range(ncell):             # CFL
            ctx.assume(lift(dt) * outflow[c] <= lift(V[c]))
        tot_old = z3.Sum([lift(V[c]) * lift(ck[c]) for c in range(ncell)])
        tot_new = z3.Sum([lift(V[c]) * cnew[c] for c in range(ncell)])
        ctx.check("total-amount-conserved", tot_new == tot_old, case)
        for c in range(ncell):
            ctx.check("max-principle-upper", z3.Or([cnew[c] <= lift(x) for x in ck]), case)
            ctx.check("max-principle-lower", z3.Or([cnew[c] >= lift(x) for x in ck]), case)
    m = ctx.reach("end")
    if m is not None and ctx.idx % 2 == 0:
        ctx.validate_replay("float-run", case, model=m)
    if ctx.idx < 2:
        ctx.sample({"shard": shard, "path": ctx.idx})


def run_shard(ex, shard):
    ex.run(h_select if shard["kind"] == "select" else h_transport, label=str(shard), args=(shard,))


# ---------------------------------------------------------------- real-code side


def concrete_run(case):
    raise NotImplementedError


def replay_case(case):
    import porepy as pp

    shard = case["shard"]
    g = _grid(shard["topo"])
    nf, ncell, ncomp = g.num_faces, g.num_cells, shard["ncomp"]
    q = np.array(case["q"], dtype=float)
    bfaces = g.get_all_boundary_faces()
    if shard["kind"] == "select":
        if np.any(q == 0):
            return False, "zero flux"
        is_dir = np.zeros(nf, dtype=bool)
        for k, f in enumerate(bfaces):
            is_dir[f] = bool(shard["bc"][k])
        bc = pp.BoundaryCondition(g, bfaces[is_dir[bfaces]], ["dir"] * int(is_dir[bfaces].sum()))
        U, D, N = _discretize(g, q, bc, ncomp)
        eU, eD, eN = _expected_select(g, np.sign(q), is_dir, ncomp)
        for name, got, exp in (("upwind", U, eU), ("dirichlet-inflow", D, eD), ("neumann", N, eN)):
            gd = got.toarray()
            if gd.shape != exp.shape or not np.array_equal(gd, exp):
                return True, f"{name} matrix {gd.tolist()} != expected {exp.tolist()} for q = {q.tolist()}, bc = {shard['bc']}"
        return False, "ok"
    bc = pp.BoundaryCondition(g)
    V, c0, dt = np.array(case["V"], dtype=float), np.array(case["c"], dtype=float), float(case["dt"])
    U, D, N = _discretize(g, q, bc, ncomp)
    div = g.cell_faces.T.toarray()
    for k in range(ncomp):
        ck = c0[k::ncomp]
        Uk = U.toarray()[k::ncomp, k::ncomp]
        flux = q * (Uk @ ck)
        cnew = ck - dt / V * (div @ flux)
        if abs((V * cnew).sum() - (V * ck).sum()) > 1e-9 * (1 + np.abs(V * ck).sum()):
            return True, f"total amount changes from {(V * ck).sum()} to {(V * cnew).sum()}"
        if cnew.max() > ck.max() + 1e-9 or cnew.min() < ck.min() - 1e-9:
            return True, f"new values {cnew.tolist()} leave the initial bounds [{ck.min()}, {ck.max()}]"
    return False, "ok"
