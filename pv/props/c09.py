"""C09 — adaptive time stepping hits every scheduled time.

The real TimeManager is driven in the order of run_time_dependent_model.time_step +
after_nonlinear_convergence / after_nonlinear_failure, with symbolic schedule, dt_init,
dt_min, dt_max, iteration counts; failure flags per shard.
"""
from __future__ import annotations

import itertools

import z3

from ..explore import KF
from ..sym import SBool, SReal, lift

PID = "C09"
TARGET_PREFIXES = ("numerics/time_step_control",)

RTOL, ATOL = 1e-10, 1e-16
GAP = 1.0 / 1024  # minimal schedule gap / dt_min (>> equality tolerance)
TMAX = 64.0
MARGIN = 1.0 / (1 << 20)  # violations must exceed the tolerance band by this margin (rounding-safe)

META = {
    "explanation": "TimeManager.__init__/compute_time_step/increase_time/final_time_reached "
                   "executed symbolically for K driver steps; obligations per accepted/failed step",
    "assumptions": [
        "floats modelled as exact reals",
        "documented constructor preconditions (schedule strictly increasing and non-negative, "
        "0 < dt_min <= dt_init <= dt_max, dt_min*over<=dt_max, dt_max*under>=dt_min) and "
        "dt_init <= s_1 - s_0 (the property's own precondition)",
        f"schedule gaps and dt_min >= {GAP}, final time <= {TMAX} (keeps the isclose tolerance "
        f"rtol={RTOL}, atol={ATOL} far below every gap)",
        "iteration count of every converged step in [1, iter_max]",
    ],
    "stubs": ["np.isclose -> |a-b| <= atol + rtol*|b| (numpy documentation formula)",
              "warnings.warn / print: no-ops"],
    "outside": ["constant_dt=True mode", "paths longer than K driver steps are cut (stated bound)",
                "time-information export/load"],
}


def shards(tier, seed):
    out = []
    if tier == "quick":
        for nsched in (2, 3):
            for K in (3,):
                for fails in itertools.product((0, 1), repeat=K):
                    out.append({"nsched": nsched, "K": K, "fails": list(fails), "recomp_max": 2,
                                "factors": "dyadic"})
        out.append({"nsched": 4, "K": 3, "fails": [0, 0, 0], "recomp_max": 2, "factors": "dyadic"})
        out.append({"nsched": 3, "K": 3, "fails": [0, 1, 1], "recomp_max": 1, "factors": "default"})
        # late failure after a scheduled time was passed (stale schedule bookkeeping)
        out.insert(0, {"nsched": 3, "K": 4, "fails": [0, 0, 0, 1], "recomp_max": 2, "factors": "dyadic"})
        out.insert(1, {"nsched": 3, "K": 4, "fails": [0, 0, 1, 0], "recomp_max": 2, "factors": "dyadic"})
    else:
        for nsched in (2, 3, 4):
            K = 5 if nsched == 3 else 4
            for fails in itertools.product((0, 1), repeat=K):
                out.append({"nsched": nsched, "K": K, "fails": list(fails),
                            "recomp_max": 1 + (sum(fails) % 3), "factors": "dyadic"})
        for fails in itertools.product((0, 1), repeat=4):
            out.append({"nsched": 3, "K": 4, "fails": list(fails), "recomp_max": 2, "factors": "default"})
        for nsched in (2, 3):
            for fails in itertools.product((0, 1), repeat=3):
                out.append({"nsched": nsched, "K": 3, "fails": list(fails), "recomp_max": 2,
                            "factors": "symbolic"})
        out.append({"nsched": 5, "K": 4, "fails": [0] * 4, "recomp_max": 2, "factors": "dyadic"})
        out.append({"nsched": 6, "K": 4, "fails": [0, 0, 1, 0], "recomp_max": 2, "factors": "dyadic"})
    return out


def configure(cfg, tier):
    # a shard that exceeds its path budget reports the unexplored prefixes (never success)
    cfg.max_paths = 20000 if tier == "quick" else 60000


def _close(a, b):
    """The code's own equality notion (np.isclose formula), as a z3 formula."""
    ae, be = lift(a), lift(b)
    d = z3.If(ae - be >= 0, ae - be, be - ae)
    ab = z3.If(be >= 0, be, -be)
    return d <= lift(ATOL) + lift(RTOL) * ab


def _near(a, b):
    """|a-b| <= MARGIN: weaker than the code's isclose for all admitted magnitudes
    (tolerance <= atol + rtol*TMAX < MARGIN), so the weakened claims are implied by the
    property and a counterexample violates it by a rounding-safe margin."""
    ae, be = lift(a), lift(b)
    return z3.And(ae - be <= lift(MARGIN), be - ae <= lift(MARGIN))


ITER_MAX = 15
OPT = (4, 7)


def _factors(ctx, kind):
    if kind == "dyadic":
        return (0.75, 1.25), 0.5
    if kind == "default":
        return (0.7, 1.3), 0.5
    under = ctx.real("under", 0.25, 0.9375)
    over = ctx.real("over", 1.0625, 2)
    rf = ctx.real("recomp_factor", 0.125, 0.875)
    return (under, over), rf


def harness(ctx, shard):
    import porepy as pp

    n, K, fails = shard["nsched"], shard["K"], shard["fails"]
    s = [ctx.real(f"s{i}") for i in range(n)]
    ctx.assume(s[0] >= 0)
    for i in range(n - 1):
        ctx.assume(s[i + 1] - s[i] >= GAP)
    ctx.assume(s[-1] <= TMAX)
    dt_init, dt_min, dt_max = ctx.real("dt_init"), ctx.real("dt_min"), ctx.real("dt_max")
    (under, over), rf = _factors(ctx, shard["factors"])
    ctx.assume(dt_min >= GAP)
    ctx.assume(dt_min <= dt_init)
    ctx.assume(dt_init <= dt_max)
    ctx.assume(dt_min * over <= dt_max)
    ctx.assume(dt_max * under >= dt_min)
    ctx.assume(dt_init <= s[1] - s[0])
    iters = [ctx.int(f"it{k}", 1, ITER_MAX) for k in range(K)]
    inputs = {"schedule": s, "dt_init": dt_init, "dt_min": dt_min, "dt_max": dt_max,
              "iters": iters, "fails": fails, "recomp_max": shard["recomp_max"],
              "under": under, "over": over, "recomp_factor": rf, "K": K}

    def case(conc):
        return conc(inputs)

    ctx.dyadic_vars = _dy_vars(ctx)

    tm = pp.TimeManager(schedule=list(s), dt_init=dt_init, dt_min_max=(dt_min, dt_max),
                        iter_max=ITER_MAX, iter_optimal_range=OPT,
                        iter_relax_factors=(under, over), recomp_factor=rf,
                        recomp_max=shard["recomp_max"], rtol=RTOL, atol=ATOL)
    last_acc = s[0]
    hit = [z3.BoolVal(True)] + [z3.BoolVal(False)] * (n - 1)
    trace = {"times": [], "dts": [], "raised": None}
    consec_fail = 0
    kf_pred = z3.BoolVal(False)  # "a call took the already-at-scheduled-time early return"
    known = lambda: [KF("C09-early-return", kf_pred)]  # noqa: E731
    for k in range(K):
        if tm.final_time_reached():
            break
        # --- run_models.time_step
        tm.increase_time()
        tm.increase_time_index()
        t_new = tm.time
        idx_before = tm._scheduled_idx
        if not fails[k]:
            # accepted step
            consec_fail = 0
            ctx.check(f"increase[{k}]", t_new > last_acc, case, known())
            ctx.check(f"not-beyond-final[{k}]", lift(t_new) <= lift(s[-1]) + lift(MARGIN),
                      case, known())
            for j in range(1, n):
                hit[j] = z3.Or(hit[j], _near(t_new, s[j]))
                ctx.check(f"scheduled-time-hit[{k}]",
                          z3.Or(lift(s[j]) >= lift(t_new) - lift(MARGIN), hit[j]), case, known())
            last_acc = t_new
            trace["times"].append(t_new)
            r = tm.compute_time_step(iterations=iters[k])
            if r is None:
                break
        else:
            dt_before = tm.dt
            try:
                tm.compute_time_step(recompute_solution=True)
            except ValueError as e:
                just = z3.Or(z3.BoolVal(consec_fail >= shard["recomp_max"]),
                             lift(dt_before) == lift(dt_min))
                ctx.check(f"raise-justified[{k}]", just, case, known())
                trace["raised"] = k
                break
            consec_fail += 1
            ctx.check(f"clock-reset[{k}]", _near(tm.time, last_acc), case, known())
        if tm._scheduled_idx == idx_before + 1 and tm._is_about_to_hit_schedule:
            kf_pred = z3.Or(kf_pred, _close(tm.time, s[idx_before]))
        dt = tm.dt
        trace["dts"].append(dt)
        ctx.check(f"dt-positive[{k}]", lift(dt) > 0, case, known())
        ctx.check(f"dt-le-max[{k}]", lift(dt) <= lift(dt_max) + lift(MARGIN), case, known())
        lands = z3.Or([_near(tm.time + dt, sj) for sj in s[1:]])
        ctx.check(f"dt-ge-min-or-lands[{k}]",
                  z3.Or(lift(dt) >= lift(dt_min) - lift(MARGIN), lands), case, known())
    m = ctx.reach("end")
    if m is not None and (ctx.idx % ctx.ex.cfg.validate_every == 0):
        ctx.validate("trace", trace, case, model=m, exact=True)
    if ctx.idx < 3:
        ctx.sample({"shard": shard, "path": ctx.idx, "decisions": len(ctx.decisions),
                    "times": [str(t) for t in trace["times"]][:4]})
    return trace


def _dy_vars(ctx):
    return [v for k, v in ctx.syms.items() if not k.startswith("it")]


def run_shard(ex, shard):
    ex.run(harness, label=f"n{shard['nsched']}K{shard['K']}f{''.join(map(str, shard['fails']))}"
                          f"{shard['factors'][0]}", args=(shard,))


# ------------------------------------------------------------------ real-code side


def _drive(case, exact=False):
    import fractions

    import porepy as pp

    if exact:
        float = lambda x: x if isinstance(x, fractions.Fraction) else fractions.Fraction(x)  # noqa: E731,A001
    else:
        import builtins

        float = builtins.float  # noqa: A001
    s = [float(x) for x in case["schedule"]]
    tm = pp.TimeManager(schedule=s, dt_init=float(case["dt_init"]),
                        dt_min_max=(float(case["dt_min"]), float(case["dt_max"])),
                        iter_max=ITER_MAX, iter_optimal_range=OPT,
                        iter_relax_factors=(float(case["under"]), float(case["over"])),
                        recomp_factor=float(case["recomp_factor"]),
                        recomp_max=int(case["recomp_max"]), rtol=float(RTOL), atol=float(ATOL))
    ev = []  # events for the property oracle
    times, dts, raised = [], [], None
    last = s[0]
    consec = 0
    for k in range(int(case["K"])):
        if tm.final_time_reached():
            break
        tm.increase_time()
        tm.increase_time_index()
        if not case["fails"][k]:
            consec = 0
            ev.append(("accept", k, float(tm.time), last))
            last = float(tm.time)
            times.append(last)
            if tm.compute_time_step(iterations=int(case["iters"][k])) is None:
                break
        else:
            dtb = float(tm.dt)
            try:
                tm.compute_time_step(recompute_solution=True)
            except ValueError:
                ev.append(("raise", k, consec, dtb))
                raised = k
                break
            consec += 1
            ev.append(("reset", k, float(tm.time), last, float(tm.dt), dtb))
        dts.append(float(tm.dt))
        ev.append(("dt", k, float(tm.time), float(tm.dt)))
    return {"times": times, "dts": dts, "raised": raised}, ev, s


def concrete_run(case):
    """Exact (Fraction) run of the real TimeManager: validates the encoding path by path."""
    return _drive(case, exact=True)[0]


def replay_case(case):
    """Evaluate the property on the real TimeManager with floats (rounding-safe slack)."""
    import numpy as np

    trace, ev, s = _drive(case)
    dt_min, dt_max = float(case["dt_min"]), float(case["dt_max"])
    slack = MARGIN / 2
    close = lambda a, b: abs(a - b) <= slack  # noqa: E731
    hit = [True] + [False] * (len(s) - 1)
    for e in ev:
        if e[0] == "accept":
            _, k, t, last = e
            if not t > last:
                return True, f"step {k}: accepted time {t} does not increase over {last}"
            if t > s[-1] + slack:
                return True, f"step {k}: accepted time {t} exceeds final time {s[-1]}; trace {trace}"
            for j in range(1, len(s)):
                hit[j] = hit[j] or close(t, s[j])
                if s[j] < t - slack and not hit[j]:
                    return True, f"step {k}: scheduled time {s[j]} skipped; accepted times {trace['times']}"
        elif e[0] == "raise":
            _, k, consec, dtb = e
            if consec < int(case["recomp_max"]) and abs(dtb - dt_min) > 0:
                return True, f"step {k}: ValueError although recomputation budget left and dt {dtb} > dt_min"
        elif e[0] == "reset":
            _, k, t, last, dt, dtb = e
            if abs(t - last) > slack:
                return True, f"step {k}: clock {t} not reset to last accepted time {last}"
        elif e[0] == "dt":
            _, k, t, dt = e
            if dt <= 0:
                return True, f"step {k}: dt {dt} not positive"
            if dt > dt_max + slack:
                return True, f"step {k}: dt {dt} > dt_max {dt_max}"
            if dt < dt_min - slack and not any(close(t + dt, sj) for sj in s[1:]):
                return True, f"step {k}: dt {dt} < dt_min {dt_min} without landing on the schedule"
    return False, f"property holds on trace {trace}"
