"""C41 — interpolation tables are exact for multilinear functions."""
from __future__ import annotations

import itertools

import numpy as np
import z3

from ..arr import SymArr
from ..sym import SReal, lift, rv

PID = "C41"
TARGET_PREFIXES = ("utils/interpolation_tables",)

META = {
    "explanation": "InterpolationTable.__init__/_set_sizes/interpolate/gradient/_find_base_vertex/_right_left_weights and "
                   "AdaptiveInterpolationTable.interpolate/gradient on symbolic box limits, symbolic multilinear "
                   "coefficients and a symbolic query point; the base-vertex index forks the paths",
    "assumptions": ["floats as exact reals", "query point inside the box, written as low + t*(high-low), 0 <= t <= 1",
                    "1-2 parameters, 2-3 grid points per axis (quick) / up to 3 parameters, 4 points (thorough)",
                    "adaptive table: grid resolution 2^-k and a dyadic base point (its own rounding safeguards are "
                    "part of the executed code)"],
    "stubs": ["np.linspace on symbolic end points: start + i*(stop-start)/(n-1)",
              "floor division of a symbolic value: fresh integer k with k <= q < k+1 (forks on k)"],
    "outside": ["3 or more parameters and 2-parameter tables with more than 8 nodes (z3 left obligations undecided / did not return within 10 minutes)", "tables with more than two functions (dim > 2); two-function tables beyond 6 nodes"],
}


def shards(tier, seed):
    out = []
    if tier == "quick":
        grids = [[2], [3], [2, 2], [3, 2]]
    else:
        grids = [[2], [3], [4], [5], [2, 2], [3, 2], [4, 2]]      # [3,3] and 3-d tables: undecided obligations / no result within 10 min
    for g in grids:
        out.append({"kind": "standard", "npt": g})
    for d in (1, 2):
        out.append({"kind": "adaptive", "d": d})
    # sequences of three queries in different cells (partly filled table, known and new vertices mixed)
    out.append({"kind": "adaptive-seq", "d": 2, "npt": [4, 3]})
    out.append({"kind": "adaptive-seq", "d": 1, "npt": [5]})
    if tier == "thorough":
        out.append({"kind": "adaptive-seq", "d": 1, "npt": [7]})
    return out


def configure(cfg, tier):
    cfg.incremental_first = False
    cfg.query_timeout_ms = 20000 if tier == "quick" else 60000
    cfg.max_paths = 1500


def _multilinear(coefs, d):
    """f(x) = sum over subsets S of {0..d-1} of c_S * prod_{i in S} x_i."""
    subsets = [s for r in range(d + 1) for s in itertools.combinations(range(d), r)]

    def f(*x):
        tot = 0
        for c, s in zip(coefs, subsets):
            term = c
            for i in s:
                term = term * x[i]
            tot = tot + term
        return tot

    return f, subsets


def _json(c):
    if isinstance(c, dict):
        return {k: _json(v) for k, v in c.items()}
    if isinstance(c, np.ndarray):
        return c.tolist()
    if isinstance(c, (list, tuple)):
        return [_json(v) for v in c]
    return c


def _guard(ctx, fn, name, case, *a):
    """A query inside the box must not raise (PathAbort passes through)."""
    from ..sym import PathAbort

    try:
        fn(ctx, *a, case_holder=case)
    except PathAbort:
        raise
    except Exception as e:  # noqa: BLE001
        ctx.check(f"{name}-does-not-raise-inside-box[{type(e).__name__}]", False, case.get("case"))
        ctx.reach("end")


def h_standard(ctx, npt, case_holder=None):
    from porepy.utils.interpolation_tables import InterpolationTable

    d = len(npt)
    low = ctx.reals("lo", d, -2, 0)
    width = ctx.reals("w", d, 0.5, 2)
    high = low + width
    coefs = ctx.reals("c", 2 ** d, -2, 2)
    f, subsets = _multilinear(coefs.tolist(), d)
    t = ctx.reals("t", d, 0, 1)
    x = (low + t * width).reshape((-1, 1))
    inputs = {"npt": npt, "low": low, "high": high, "coefs": coefs, "x": x.ravel()}

    def case(conc):
        c = _json(conc(inputs))
        c["kind"] = "standard"
        return c

    if case_holder is not None:
        case_holder["case"] = case
    tab = InterpolationTable(low, high, np.array(npt), f)
    v = tab.interpolate(x)
    ctx.check("shape", np.shape(v) == (1, 1), case)
    exact = f(*[x[i, 0] for i in range(d)])
    ctx.check("interpolation-exact-for-multilinear", lift(v[0, 0]) == lift(exact), case)
    # gradient: exact for linear functions (higher-order coefficients set to zero by a second table)
    lin_coefs = [c if len(s) <= 1 else 0 for c, s in zip(coefs.tolist(), subsets)]
    flin, _ = _multilinear(lin_coefs, d)
    tab_lin = InterpolationTable(low, high, np.array(npt), flin)
    for ax in range(d):
        g = tab_lin.gradient(x, ax)
        want = [c for c, s in zip(coefs.tolist(), subsets) if s == (ax,)][0]
        ctx.check("gradient-exact-for-linear", lift(g[0, 0]) == lift(want), case)
    # several functions in one table (dim = 2): each row interpolates its own function
    if d <= 2 and int(np.prod(npt)) <= 6:
        coefs2 = ctx.reals("cc", 2 ** d, -2, 2)
        f2, _ = _multilinear(coefs2.tolist(), d)

        def both_f(*a):
            return np.array([f(*a), f2(*a)], dtype=object)

        inputs["coefs2"] = coefs2
        tab2 = InterpolationTable(low, high, np.array(npt), both_f, dim=2)
        v2 = tab2.interpolate(x)
        ctx.check("two-function-table-shape", np.shape(v2) == (2, 1), case)
        if np.shape(v2) == (2, 1):
            ctx.check("two-function-table-exact", z3.And(lift(v2[0, 0]) == lift(exact),
                                                         lift(v2[1, 0]) == lift(f2(*[x[i, 0] for i in range(d)]))), case)
    # two query points at once agree with one at a time
    t2 = ctx.reals("u", d, 0, 1)
    x2 = (low + t2 * width).reshape((-1, 1))
    both = tab.interpolate(np.hstack([x, x2]).view(SymArr))
    ctx.check("vectorised-query", z3.And(lift(both[0, 0]) == lift(exact),
                                         lift(both[0, 1]) == lift(f(*[x2[i, 0] for i in range(d)]))), case)
    m = ctx.reach("end")
    if m is not None and ctx.idx % 2 == 0:
        ctx.validate_replay("float-run", case, model=m)
    if ctx.idx < 2:
        ctx.sample({"npt": npt, "path": ctx.idx, "value": str(v[0, 0])[:200]})


def h_adaptive(ctx, d, case_holder=None):
    from porepy.utils.interpolation_tables import AdaptiveInterpolationTable, InterpolationTable

    dx = np.array([0.5, 0.25][:d])
    base = np.array([-0.5, 0.25][:d])
    npt = [3, 3][:d]
    low = base.copy()
    high = base + dx * (np.array(npt) - 1)
    coefs = ctx.reals("c", 2 ** d, -2, 2)
    f, subsets = _multilinear(coefs.tolist(), d)
    t = ctx.reals("t", d, 0.015625, 0.984375)
    x = (low + t * (high - low)).reshape((-1, 1))
    inputs = {"d": d, "coefs": coefs, "x": x.ravel()}

    def case(conc):
        c = _json(conc(inputs))
        c["kind"] = "adaptive"
        return c

    if case_holder is not None:
        case_holder["case"] = case
    ada = AdaptiveInterpolationTable(dx, base_point=base, function=f, dim=1)
    std = InterpolationTable(low, high, np.array(npt), f)
    va = ada.interpolate(x)
    vs = std.interpolate(x)
    ctx.check("adaptive-agrees-with-standard", lift(va[0, 0]) == lift(vs[0, 0]), case)
    ctx.check("adaptive-exact-for-multilinear", lift(va[0, 0]) == lift(f(*[x[i, 0] for i in range(d)])), case)
    # a second query (values partly cached from the first one)
    t2 = ctx.reals("u", d, 0.015625, 0.984375)
    x2 = (low + t2 * (high - low)).reshape((-1, 1))
    va2 = ada.interpolate(x2)
    ctx.check("adaptive-second-query", lift(va2[0, 0]) == lift(std.interpolate(x2)[0, 0]), case)
    for ax in range(d):
        ctx.check("adaptive-gradient-agrees", lift(ada.gradient(x, ax)[0, 0]) == lift(std.gradient(x, ax)[0, 0]), case)
    m = ctx.reach("end")
    if m is not None and ctx.idx % 3 == 0:
        ctx.validate_replay("float-run", case, model=m)
    if ctx.idx < 2:
        ctx.sample({"adaptive dim": d, "path": ctx.idx})


def h_adaptive_seq(ctx, d, npt, case_holder=None):
    from porepy.utils.interpolation_tables import AdaptiveInterpolationTable

    dx = np.array([0.5, 0.25][:d])
    base = np.array([-0.5, 0.25][:d])
    low = base.copy()
    high = base + dx * (np.array(npt) - 1)
    coefs = ctx.reals("c", 2 ** d, -2, 2)
    f, _ = _multilinear(coefs.tolist(), d)
    xs = []
    for q in range(3):
        t = ctx.reals(f"t{q}", d, 0.015625, 0.984375)
        xs.append((low + t * (high - low)).reshape((-1, 1)))
    inputs = {"d": d, "npt": npt, "coefs": coefs, "xs": [x.ravel() for x in xs]}

    def case(conc):
        c = _json(conc(inputs))
        c["kind"] = "adaptive-seq"
        return c

    if case_holder is not None:
        case_holder["case"] = case
    ada = AdaptiveInterpolationTable(dx, base_point=base, function=f, dim=1)
    for q, x in enumerate(xs):
        v = ada.interpolate(x)
        ctx.check("adaptive-sequence-exact", lift(v[0, 0]) == lift(f(*[x[i, 0] for i in range(d)])), case)
    m = ctx.reach("end")
    if m is not None and ctx.idx % 5 == 0:
        ctx.validate_replay("float-run", case, model=m)
    if ctx.idx < 2:
        ctx.sample({"adaptive sequence": npt, "path": ctx.idx})


def run_shard(ex, shard):
    if shard["kind"] == "adaptive-seq":
        ex.run(lambda ctx, d, npt: _guard(ctx, lambda c, *a, case_holder=None: h_adaptive_seq(
            c, d, npt, case_holder=case_holder), "adaptive-table", {}),
            label=f"adaseq{shard['npt']}", args=(shard["d"], shard["npt"]))
        return
    if shard["kind"] == "standard":
        ex.run(lambda ctx, npt: _guard(ctx, h_standard, "standard-table", {}, npt),
               label=f"std{shard['npt']}", args=(shard["npt"],))
    else:
        ex.run(lambda ctx, d: _guard(ctx, h_adaptive, "adaptive-table", {}, d),
               label=f"ada{shard['d']}", args=(shard["d"],))


# ---------------------------------------------------------------- real-code side


def concrete_run(case):
    raise NotImplementedError


def replay_case(case):
    try:
        return _replay(case)
    except Exception as e:  # noqa: BLE001
        return True, f"query inside the box raises {type(e).__name__}: {e} (x = {case.get('x')})"


def _replay(case):
    from porepy.utils.interpolation_tables import AdaptiveInterpolationTable, InterpolationTable

    coefs = [float(c) for c in case["coefs"]]
    x = np.array(case.get("x", [0.0]), dtype=float).reshape((-1, 1))
    if case["kind"] == "standard":
        npt = case["npt"]
        d = len(npt)
        low, high = np.array(case["low"], dtype=float), np.array(case["high"], dtype=float)
        f, subsets = _multilinear(coefs, d)
        x = np.minimum(np.maximum(x, low.reshape((-1, 1))), high.reshape((-1, 1)))
        tab = InterpolationTable(low, high, np.array(npt), f)
        v = tab.interpolate(x)
        exact = f(*[x[i, 0] for i in range(d)])
        if abs(v[0, 0] - exact) > 1e-8 * (1 + abs(exact)):
            return True, f"interpolate({x.ravel().tolist()}) = {v[0, 0]}, multilinear function value {exact}"
        lin = [c if len(s) <= 1 else 0.0 for c, s in zip(coefs, subsets)]
        flin, _ = _multilinear(lin, d)
        tl = InterpolationTable(low, high, np.array(npt), flin)
        for ax in range(d):
            want = [c for c, s in zip(coefs, subsets) if s == (ax,)][0]
            g = tl.gradient(x, ax)[0, 0]
            if abs(g - want) > 1e-7 * (1 + abs(want)):
                return True, f"gradient along axis {ax} = {g}, exact {want}"
        if case.get("coefs2") is not None:
            c2 = [float(v_) for v_ in case["coefs2"]]
            f2, _ = _multilinear(c2, d)
            t2 = InterpolationTable(low, high, np.array(npt), lambda *a: np.array([f(*a), f2(*a)]), dim=2)
            v2 = t2.interpolate(x)
            e2 = f2(*[x[i, 0] for i in range(d)])
            if np.shape(v2) != (2, 1) or abs(v2[0, 0] - exact) > 1e-8 * (1 + abs(exact)) or abs(v2[1, 0] - e2) > 1e-8 * (1 + abs(e2)):
                return True, (f"two-function table: interpolate({x.ravel().tolist()}) = {np.asarray(v2).ravel().tolist()}, "
                              f"function values {[exact, e2]}")
        return False, "exact"
    d = case["d"]
    dx = np.array([0.5, 0.25][:d])
    base = np.array([-0.5, 0.25][:d])
    if case["kind"] == "adaptive-seq":
        f, _ = _multilinear(coefs, d)
        ada = AdaptiveInterpolationTable(dx, base_point=base, function=f, dim=1)
        for xq in case["xs"]:
            xq = np.array(xq, dtype=float).reshape((-1, 1))
            v = ada.interpolate(xq)[0, 0]
            exact = f(*[xq[i, 0] for i in range(d)])
            if abs(v - exact) > 1e-8 * (1 + abs(exact)):
                return True, f"adaptive table after earlier queries: interpolate({xq.ravel().tolist()}) = {v}, exact {exact}"
        return False, "exact"
    npt = [3, 3][:d]
    low, high = base.copy(), base + dx * (np.array(npt) - 1)
    f, _ = _multilinear(coefs, d)
    ada = AdaptiveInterpolationTable(dx, base_point=base, function=f, dim=1)
    std = InterpolationTable(low, high, np.array(npt), f)
    va, vs = ada.interpolate(x)[0, 0], std.interpolate(x)[0, 0]
    if abs(va - vs) > 1e-9 * (1 + abs(vs)):
        return True, f"adaptive table {va} != standard table {vs} at {x.ravel().tolist()}"
    for ax in range(d):
        ga, gs = ada.gradient(x, ax)[0, 0], std.gradient(x, ax)[0, 0]
        if abs(ga - gs) > 1e-8 * (1 + abs(gs)):
            return True, f"adaptive gradient {ga} != standard gradient {gs}"
    return False, "agree"
