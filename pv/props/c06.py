"""C06 — restricted assembly is a slice of the full system (case split on subsets)."""
from __future__ import annotations

import itertools

import numpy as np
import z3

from ..adutil import dense
from ..arr import SymArr
from ..sym import lift
from . import _eqsys

PID = "C06"
TARGET_PREFIXES = ("numerics/ad/equation_system",)

META = {
    "explanation": "EquationSystem.assemble with equation subsets (any argument order), grid restrictions and "
                   "variable subsets vs rows/columns of the full assembly; symbolic state and coefficients",
    "assumptions": ["floats as exact reals", "one equation system: 3 nonlinear equations (6+4+4 rows), variables x "
                    "(matrix 4 + fracture 2 dofs) and lam (4 dofs) on a fractured 2x2 md-grid"],
    "stubs": ["sparse products on symbolic data -> SymSparse", "sha256 of symbolic leaf data"],
    "outside": ["other equation systems / grids"],
}

FULL_ROWS = {"E1": list(range(0, 6)), "E2": list(range(6, 10)), "E3": list(range(10, 14))}
E1_GRID_ROWS = {"matrix": [0, 1, 2, 3], "fracture": [4, 5]}


def _selections():
    """(equations argument builder, expected {eq: full rows}) pairs."""
    sels = []
    names = ["E1", "E2", "E3"]
    for r in (1, 2, 3):
        for combo in itertools.permutations(names, r):
            sels.append(("names", list(combo), None))
    # grid restrictions of E1 (alone and combined with others, several argument orders)
    for grids in (["matrix"], ["fracture"], ["fracture", "matrix"], []):
        sels.append(("restrict", ["E1"], grids))
        sels.append(("restrict", ["E3", "E1"], grids))
        sels.append(("restrict", ["E1", "E2"], grids))
    return sels


VAR_SUBSETS = [None, ["x"], ["lam"], ["lam", "x"], ["xm"], ["xf"], ["xf", "lam"], ["xm", "xf"]]


def shards(tier, seed):
    sels = _selections()
    work = [(i, j) for i in range(len(sels)) for j in range(len(VAR_SUBSETS))]
    if tier == "quick":
        work = work[::3]
    k = 8 if tier == "quick" else 16
    return [{"work": work[i::k]} for i in range(k)]


def configure(cfg, tier):
    cfg.incremental_first = False


def _coefs(ctx):
    out = {}
    for name, shape in _eqsys.coefficient_shapes().items():
        out[name] = ctx.reals(name, shape, -2, 2)
    return out


def _resolve(env, sel, vsub):
    es = env["es"]
    kind, names, grids = sel
    gridmap = {"matrix": env["matrix"][0], "fracture": [g for g in env["sds"] if g.dim == 1][0]}
    if kind == "names":
        eq_arg = list(names)
        rows = {n: list(FULL_ROWS[n]) for n in names}
    else:
        eq_arg = {}
        rows = {}
        for n in names:
            if n == "E1":
                eq_arg[n] = [gridmap[g] for g in grids]
                rows[n] = sorted(r for g in grids for r in E1_GRID_ROWS[g])
            else:
                doms = list(env["matrix"]) if n == "E2" else list(env["intfs"])
                eq_arg[n] = doms
                rows[n] = list(FULL_ROWS[n])
    xm = env["xm"]
    xf = [v for v in env["x"].sub_vars if v is not xm][0]
    vmap = {"x": env["x"], "lam": env["lam"], "xm": xm, "xf": xf}
    var_arg = None if vsub is None else [vmap[v] for v in vsub]
    if vsub is None:
        cols = list(range(es.num_dofs()))
    else:
        cols = sorted(int(i) for v in vsub for i in es.dofs_of([vmap[v]]))
    return eq_arg, var_arg, rows, cols


def harness(ctx, si, vi):
    coef = _coefs(ctx)
    env = _eqsys.build_system(coef)
    es = env["es"]
    n = es.num_dofs()
    x = ctx.reals("s", n, -2, 2)
    sel, vsub = _selections()[si], VAR_SUBSETS[vi]
    inputs = {"coef": coef, "x": x, "si": si, "vi": vi}

    def case(conc):
        c = conc(inputs)
        return {"si": si, "vi": vi, "x": np.asarray(c["x"]).tolist(),
                "coef": {k: np.asarray(v).tolist() for k, v in c["coef"].items()}}

    Jf, bf = es.assemble(state=x)
    idx_full = {k: list(map(int, v)) for k, v in es.assembled_equation_indices.items()}
    ctx.check("full-equation-indices", idx_full == FULL_ROWS, case)
    Jf, bf = dense(Jf), np.asarray(bf, dtype=object)
    eq_arg, var_arg, rows, cols = _resolve(env, sel, vsub)
    Jr, br = es.assemble(equations=eq_arg, variables=var_arg, state=x)
    got_idx = {k: list(map(int, v)) for k, v in es.assembled_equation_indices.items()}
    b_only = es.assemble(evaluate_jacobian=False, equations=eq_arg, variables=var_arg, state=x)
    Jr, br = dense(Jr), np.asarray(br, dtype=object)
    # expected: blocks in the order the equations were set, whatever the argument order
    R = []
    exp_idx = {}
    for name in ("E1", "E2", "E3"):
        if name in rows:
            exp_idx[name] = list(range(len(R), len(R) + len(rows[name])))
            R += rows[name]
    ctx.check("reported-row-indices", got_idx == exp_idx, case)
    ok = Jr.shape == (len(R), len(cols)) and br.shape == (len(R),) and np.shape(b_only) == (len(R),)
    ctx.check("shape", bool(ok), case)
    if ok:
        for a, r in enumerate(R):
            ctx.check("residual-rows", lift(br[a]) == lift(bf[r]), case)
            ctx.check("residual-only-assembly", lift(np.asarray(b_only, dtype=object)[a]) == lift(bf[r]), case)
            for bcol, c in enumerate(cols):
                ctx.check("jacobian-slice", lift(Jr[a, bcol]) == lift(Jf[r, c]), case)
    m = ctx.reach("end")
    if m is not None:
        ctx.validate_replay("float-run", case, model=m)
    if ctx.rep.paths % 23 == 0:
        ctx.sample({"equations": str(sel), "variables": vsub, "rows": R, "cols": cols})


def run_shard(ex, shard):
    _eqsys.mdg_env()
    for si, vi in shard["work"]:
        ex.run(harness, label=f"sel{si}/var{vi}", args=(si, vi))


# ---------------------------------------------------------------- real-code side


def concrete_run(case):
    raise NotImplementedError


def replay_case(case):
    coef = {k: np.array(v, dtype=float) for k, v in case["coef"].items()}
    env = _eqsys.build_system(coef)
    es = env["es"]
    x = np.array(case["x"], dtype=float)
    sel, vsub = _selections()[case["si"]], VAR_SUBSETS[case["vi"]]
    Jf, bf = es.assemble(state=x)
    Jf = Jf.toarray()
    eq_arg, var_arg, rows, cols = _resolve(env, sel, vsub)
    Jr, br = es.assemble(equations=eq_arg, variables=var_arg, state=x)
    got_idx = {k: list(map(int, v)) for k, v in es.assembled_equation_indices.items()}
    b_only = es.assemble(evaluate_jacobian=False, equations=eq_arg, variables=var_arg, state=x)
    R, exp_idx = [], {}
    for name in ("E1", "E2", "E3"):
        if name in rows:
            exp_idx[name] = list(range(len(R), len(R) + len(rows[name])))
            R += rows[name]
    if got_idx != exp_idx:
        return True, f"reported row indices {got_idx} != {exp_idx} for {sel}"
    Jr = Jr.toarray()
    if Jr.shape != (len(R), len(cols)) or br.shape != (len(R),):
        return True, f"restricted system has shape {Jr.shape}, expected {(len(R), len(cols))} for {sel}/{vsub}"
    if not np.allclose(br, bf[R]) or not np.allclose(b_only, bf[R]):
        return True, f"restricted residual is not the slice of the full residual for {sel}/{vsub}"
    if not np.allclose(Jr, Jf[np.ix_(R, cols)]):
        return True, f"restricted Jacobian is not the slice of the full Jacobian for {sel}/{vsub}"
    return False, "slice"
