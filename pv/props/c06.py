"""C06 — restricted assembly is a slice of the full system (case split on subsets)."""
from __future__ import annotations

import itertools

import numpy as np
import z3

from ..adutil import dense
from ..arr import SymArr
from ..sym import lift
from . import _eqsys

PID = "C06"
TARGET_PREFIXES = ("numerics/ad/equation_system",)

META = {
    "explanation": "EquationSystem.assemble with equation subsets (any argument order), grid restrictions and "
                   "variable subsets vs rows/columns of the full assembly; symbolic state and coefficients",
    "assumptions": ["floats as exact reals", "one equation system: 3 nonlinear equations (6+4+4 rows), variables x "
                    "(matrix 4 + fracture 2 dofs) and lam (4 dofs) on a fractured 2x2 md-grid"],
    "stubs": ["sparse products on symbolic data -> SymSparse", "sha256 of symbolic leaf data"],
    "outside": ["other equation systems / grids"],
    "second_system": "two equations on the 4 subdomains of a 2-fracture md-grid (9 dofs), the first restricted to every subset of its grids",
}

FULL_ROWS = {"E1": list(range(0, 6)), "E2": list(range(6, 10)), "E3": list(range(10, 14))}
E1_GRID_ROWS = {"matrix": [0, 1, 2, 3], "fracture": [4, 5]}


def _selections():
    """(equations argument builder, expected {eq: full rows}) pairs."""
    sels = []
    names = ["E1", "E2", "E3"]
    for r in (1, 2, 3):
        for combo in itertools.permutations(names, r):
            sels.append(("names", list(combo), None))
    # grid restrictions of E1 (alone and combined with others, several argument orders)
    for grids in (["matrix"], ["fracture"], ["fracture", "matrix"], []):
        sels.append(("restrict", ["E1"], grids))
        sels.append(("restrict", ["E3", "E1"], grids))
        sels.append(("restrict", ["E1", "E2"], grids))
    return sels


VAR_SUBSETS = [None, ["x"], ["lam"], ["lam", "x"], ["xm"], ["xf"], ["xf", "lam"], ["xm", "xf"]]


def shards(tier, seed):
    sels = _selections()
    work = [(i, j) for i in range(len(sels)) for j in range(len(VAR_SUBSETS))]
    if tier == "quick":
        work = work[::3]
    k = 8 if tier == "quick" else 16
    out = [{"work": work[i::k]} for i in range(k)]
    # second system: one equation on the four subdomains of a 2-fracture md-grid, restricted to every
    # subset of its grids (contiguous or not in the md-grid ordering), in two argument orders
    subsets = [list(c) for r in range(1, 5) for c in itertools.combinations(range(4), r)]
    out.append({"gridsets": subsets})
    return out


def configure(cfg, tier):
    cfg.incremental_first = False


def _coefs(ctx):
    out = {}
    for name, shape in _eqsys.coefficient_shapes().items():
        out[name] = ctx.reals(name, shape, -2, 2)
    return out


def _resolve(env, sel, vsub):
    es = env["es"]
    kind, names, grids = sel
    gridmap = {"matrix": env["matrix"][0], "fracture": [g for g in env["sds"] if g.dim == 1][0]}
    if kind == "names":
        eq_arg = list(names)
        rows = {n: list(FULL_ROWS[n]) for n in names}
    else:
        eq_arg = {}
        rows = {}
        for n in names:
            if n == "E1":
                eq_arg[n] = [gridmap[g] for g in grids]
                rows[n] = sorted(r for g in grids for r in E1_GRID_ROWS[g])
            else:
                doms = list(env["matrix"]) if n == "E2" else list(env["intfs"])
                eq_arg[n] = doms
                rows[n] = list(FULL_ROWS[n])
    xm = env["xm"]
    xf = [v for v in env["x"].sub_vars if v is not xm][0]
    vmap = {"x": env["x"], "lam": env["lam"], "xm": xm, "xf": xf}
    var_arg = None if vsub is None else [vmap[v] for v in vsub]
    if vsub is None:
        cols = list(range(es.num_dofs()))
    else:
        cols = sorted(int(i) for v in vsub for i in es.dofs_of([vmap[v]]))
    return eq_arg, var_arg, rows, cols


def harness(ctx, si, vi):
    coef = _coefs(ctx)
    env = _eqsys.build_system(coef)
    es = env["es"]
    n = es.num_dofs()
    x = ctx.reals("s", n, -2, 2)
    sel, vsub = _selections()[si], VAR_SUBSETS[vi]
    inputs = {"coef": coef, "x": x, "si": si, "vi": vi}

    def case(conc):
        c = conc(inputs)
        return {"si": si, "vi": vi, "x": np.asarray(c["x"]).tolist(),
                "coef": {k: np.asarray(v).tolist() for k, v in c["coef"].items()}}

    Jf, bf = es.assemble(state=x)
    idx_full = {k: list(map(int, v)) for k, v in es.assembled_equation_indices.items()}
    ctx.check("full-equation-indices", idx_full == FULL_ROWS, case)
    Jf, bf = dense(Jf), np.asarray(bf, dtype=object)
    eq_arg, var_arg, rows, cols = _resolve(env, sel, vsub)
    Jr, br = es.assemble(equations=eq_arg, variables=var_arg, state=x)
    got_idx = {k: list(map(int, v)) for k, v in es.assembled_equation_indices.items()}
    b_only = es.assemble(evaluate_jacobian=False, equations=eq_arg, variables=var_arg, state=x)
    Jr, br = dense(Jr), np.asarray(br, dtype=object)
    # expected: blocks in the order the equations were set, whatever the argument order
    R = []
    exp_idx = {}
    for name in ("E1", "E2", "E3"):
        if name in rows:
            exp_idx[name] = list(range(len(R), len(R) + len(rows[name])))
            R += rows[name]
    ctx.check("reported-row-indices", got_idx == exp_idx, case)
    ok = Jr.shape == (len(R), len(cols)) and br.shape == (len(R),) and np.shape(b_only) == (len(R),)
    ctx.check("shape", bool(ok), case)
    if ok:
        for a, r in enumerate(R):
            ctx.check("residual-rows", lift(br[a]) == lift(bf[r]), case)
            ctx.check("residual-only-assembly", lift(np.asarray(b_only, dtype=object)[a]) == lift(bf[r]), case)
            for bcol, c in enumerate(cols):
                ctx.check("jacobian-slice", lift(Jr[a, bcol]) == lift(Jf[r, c]), case)
    m = ctx.reach("end")
    if m is not None:
        ctx.validate_replay("float-run", case, model=m)
    if ctx.rep.paths % 23 == 0:
        ctx.sample({"equations": str(sel), "variables": vsub, "rows": R, "cols": cols})


_ENV2 = {}


def _system2(c, state=None):
    import porepy as pp

    if not _ENV2:
        mdg, _ = pp.mdg_library.square_with_orthogonal_fractures("cartesian", {"cell_size": 0.5}, fracture_indices=[0, 1])
        _ENV2["mdg"] = mdg
    mdg = _ENV2["mdg"]
    _eqsys.reset_data(mdg)
    es = pp.ad.EquationSystem(mdg)
    sds = mdg.subdomains()
    x = es.create_variables("x", subdomains=sds)
    e = pp.ad.DenseArray(c) * x * x + x
    e.set_name("E")
    es.set_equation(e, sds, {"cells": 1})
    e2 = x * pp.ad.Scalar(3.0) - pp.ad.DenseArray(c)
    e2.set_name("F")
    es.set_equation(e2, sds, {"cells": 1})
    return es, sds


def h_gridsets(ctx, subset):
    import porepy as pp  # noqa: F401

    nd = 9
    c = ctx.reals("c", nd, -2, 2)
    st = ctx.reals("s", nd, -2, 2)
    es, sds = _system2(c)
    inputs = {"c": c, "s": st, "subset": subset}

    def case(conc):
        cc = conc(inputs)
        return {"gridset": subset, "c": np.asarray(cc["c"]).tolist(), "s": np.asarray(cc["s"]).tolist()}

    ctx.check("system-size", es.num_dofs() == nd, case)
    Jf, bf = es.assemble(state=st)
    full_idx = {k: list(map(int, v)) for k, v in es.assembled_equation_indices.items()}
    Jf, bf = dense(Jf), np.asarray(bf, dtype=object)
    offs = np.concatenate([[0], np.cumsum([g.num_cells for g in sds])]).astype(int)
    rows_e = [int(r) for k in sorted(subset) for r in range(offs[k], offs[k + 1])]
    for order in (subset, subset[::-1]):
        grids = [sds[k] for k in order]
        for eqs, exp_rows in (({"E": grids}, [full_idx["E"][r] for r in rows_e]),
                              ({"F": list(sds), "E": grids}, [full_idx["E"][r] for r in rows_e] + full_idx["F"])):
            Jr, br = es.assemble(equations=eqs, state=st)
            got = {k: list(map(int, v)) for k, v in es.assembled_equation_indices.items()}
            b_only = es.assemble(evaluate_jacobian=False, equations=eqs, state=st)
            Jr, br, b_only = dense(Jr), np.asarray(br, dtype=object), np.asarray(b_only, dtype=object)
            exp_idx = {"E": list(range(len(rows_e)))}
            if "F" in eqs:
                exp_idx["F"] = list(range(len(rows_e), len(rows_e) + nd))
            ctx.check("reported-row-indices", got == exp_idx, case)
            ok = Jr.shape == (len(exp_rows), nd) and br.shape == (len(exp_rows),) and b_only.shape == (len(exp_rows),)
            ctx.check("shape", bool(ok), case)
            if ok:
                for a, r in enumerate(exp_rows):
                    ctx.check("residual-rows", lift(br[a]) == lift(bf[r]), case)
                    ctx.check("residual-only-assembly", lift(b_only[a]) == lift(bf[r]), case)
                    ctx.check("jacobian-slice", z3.And([lift(Jr[a, j]) == lift(Jf[r, j]) for j in range(nd)]), case)
    m = ctx.reach("end")
    if m is not None:
        ctx.validate_replay("float-run", case, model=m)
    if len(subset) == 2:
        ctx.sample({"gridset": subset})


def run_shard(ex, shard):
    _eqsys.mdg_env()
    if "gridsets" in shard:
        for subset in shard["gridsets"]:
            ex.run(h_gridsets, label=f"gridset{subset}", args=(subset,))
        return
    for si, vi in shard["work"]:
        ex.run(harness, label=f"sel{si}/var{vi}", args=(si, vi))


# ---------------------------------------------------------------- real-code side


def concrete_run(case):
    raise NotImplementedError


def replay_case(case):
    if "gridset" in case:
        subset = case["gridset"]
        c, st = np.array(case["c"], dtype=float), np.array(case["s"], dtype=float)
        es, sds = _system2(c)
        Jf, bf = es.assemble(state=st)
        full_idx = {k: list(map(int, v)) for k, v in es.assembled_equation_indices.items()}
        Jf = Jf.toarray()
        offs = np.concatenate([[0], np.cumsum([g.num_cells for g in sds])]).astype(int)
        rows_e = [full_idx["E"][int(r)] for k in sorted(subset) for r in range(offs[k], offs[k + 1])]
        for order in (subset, subset[::-1]):
            Jr, br = es.assemble(equations={"E": [sds[k] for k in order]}, state=st)
            got = list(map(int, es.assembled_equation_indices["E"]))
            b_only = es.assemble(evaluate_jacobian=False, equations={"E": [sds[k] for k in order]}, state=st)
            if Jr.shape != (len(rows_e), Jf.shape[1]) or got != list(range(len(rows_e))):
                return True, f"equation restricted to grids {order}: Jacobian shape {Jr.shape}, reported rows {got}; expected {len(rows_e)} rows"
            if not np.allclose(Jr.toarray(), Jf[rows_e]) or not np.allclose(br, bf[rows_e]) or not np.allclose(b_only, bf[rows_e]):
                return True, f"equation restricted to grids {order}: not the slice {rows_e} of the full system"
        return False, "slice"
    coef = {k: np.array(v, dtype=float) for k, v in case["coef"].items()}
    env = _eqsys.build_system(coef)
    es = env["es"]
    x = np.array(case["x"], dtype=float)
    sel, vsub = _selections()[case["si"]], VAR_SUBSETS[case["vi"]]
    Jf, bf = es.assemble(state=x)
    Jf = Jf.toarray()
    eq_arg, var_arg, rows, cols = _resolve(env, sel, vsub)
    Jr, br = es.assemble(equations=eq_arg, variables=var_arg, state=x)
    got_idx = {k: list(map(int, v)) for k, v in es.assembled_equation_indices.items()}
    b_only = es.assemble(evaluate_jacobian=False, equations=eq_arg, variables=var_arg, state=x)
    R, exp_idx = [], {}
    for name in ("E1", "E2", "E3"):
        if name in rows:
            exp_idx[name] = list(range(len(R), len(R) + len(rows[name])))
            R += rows[name]
    if got_idx != exp_idx:
        return True, f"reported row indices {got_idx} != {exp_idx} for {sel}"
    Jr = Jr.toarray()
    if Jr.shape != (len(R), len(cols)) or br.shape != (len(R),):
        return True, f"restricted system has shape {Jr.shape}, expected {(len(R), len(cols))} for {sel}/{vsub}"
    if not np.allclose(br, bf[R]) or not np.allclose(b_only, bf[R]):
        return True, f"restricted residual is not the slice of the full residual for {sel}/{vsub}"
    if not np.allclose(Jr, Jf[np.ix_(R, cols)]):
        return True, f"restricted Jacobian is not the slice of the full Jacobian for {sel}/{vsub}"
    return False, "slice"
