"""C36 — array slicers act exactly like their projection matrices.

Index sets are enumerated (case split, stated bound); operand contents (vector, 2-d array,
sparse matrix, AdArray with arbitrary Jacobian, scalar) are symbolic, and the solver decides
equality with the explicit 0/1 projection matrix applied to the same symbols.
"""
from __future__ import annotations

import itertools

import numpy as np
import scipy.sparse as sps
import z3

from ..adutil import dense, mk_ad
from ..arr import SymArr, lift_array, sa
from ..sparse import SymSparse
from ..sym import SReal, lift, rv

PID = "C36"
TARGET_PREFIXES = ("numerics/linalg/matrix_operations",)

META = {
    "explanation": "ArraySlicer.__matmul__/_slice_vector/_slice_matrix/transpose/pending-operation dunders "
                   "on symbolic operands vs explicit projection matrix",
    "assumptions": ["floats as exact reals", "index sets are injective and in range (documented use)",
                    "divisors non-zero where a pending division is applied"],
    "stubs": ["sparse matrices with symbolic data -> SymSparse (dense-backed, concrete pattern)"],
    "outside": ["index sets larger than the stated bound", "numpy arrays as LEFT operand of a pending operation "
                "(documented as unsupported in the class docstring)"],
}

OPERANDS = ["vec", "arr2d", "symsparse", "realsparse", "adarray", "scalar"]


def _index_sets(maxk, dsize, rsize):
    """(domain_indices|None, range_indices|None, range_size|None, domain_size|None)"""
    out = []
    for k in range(1, maxk + 1):
        for d in itertools.permutations(range(dsize), k):
            out.append((list(d), None, None, dsize))          # onto restriction
            out.append((list(d), None, rsize + 1, dsize))     # restriction into a larger space
        for r in itertools.permutations(range(rsize), k):
            out.append((None, list(r), rsize, None))          # prolongation
            out.append((None, list(r), None, None))           # implied range size
        for d in itertools.permutations(range(dsize), k):
            for r in itertools.permutations(range(rsize), k):
                out.append((list(d), list(r), rsize, dsize))
                # both index sets with implied sizes (range / domain size left to the slicer)
                out.append((list(d), list(r), None, dsize))
                if (sum(d) + 2 * sum(r) + k) % 3 == 0:
                    out.append((list(d), list(r), None, None))
                    out.append((list(d), list(r), rsize, None))
    return out


def shards(tier, seed):
    if tier == "quick":
        sets = _index_sets(2, 3, 3)
        chains = 40
    else:
        sets = _index_sets(3, 4, 4)
        chains = 400
    out = []
    k = 8 if tier == "quick" else 16
    for i in range(k):
        out.append({"kind": "single", "sets": sets[i::k]})
    out.append({"kind": "chains", "count": chains, "seed": seed, "maxk": 2 if tier == "quick" else 3})
    return out


def configure(cfg, tier):
    cfg.incremental_first = False


def _mk_slicer(spec):
    import porepy as pp

    d, r, rs, ds = spec
    return pp.matrix_operations.ArraySlicer(
        domain_indices=None if d is None else np.array(d),
        range_indices=None if r is None else np.array(r),
        range_size=rs, domain_size=ds)


def _matrix(spec):
    """Explicit projection matrix of the slicer described by spec (the oracle)."""
    d, r, rs, ds = spec
    if d is None:
        d = list(range(len(r)))
    if r is None:
        r = list(range(len(d)))
    rs = rs if rs is not None else max(r) + 1
    ds = ds if ds is not None else max(d) + 1
    P = np.zeros((rs, ds), dtype=int)
    for di, ri in zip(d, r):
        P[ri, di] = 1
    return P


def _pmul(P, y):
    """P @ y with exact 0/1 selection (object arrays)."""
    y = np.asarray(y, dtype=object)
    out = np.empty((P.shape[0],) + y.shape[1:], dtype=object)
    out.fill(0)
    for i in range(P.shape[0]):
        for j in range(P.shape[1]):
            if P[i, j]:
                out[i] = y[j]
    return out


def _operand(ctx, kind, n, tag="y"):
    import porepy as pp

    if kind == "vec":
        v = ctx.reals(tag, n)
        return v, v
    if kind == "arr2d":
        v = ctx.reals(tag, (n, 2))
        return v, v
    if kind == "symsparse":
        D = np.empty((n, 3), dtype=object)
        for i in range(n):
            for j in range(3):
                D[i, j] = ctx.real(f"{tag}_{i}_{j}") if (i + 2 * j) % 3 != 0 else 0
        return SymSparse(D, "csr"), D
    if kind == "realsparse":
        A = np.array([[(i + 1) * (j + 2) if (i + j) % 2 == 0 else 0 for j in range(3)] for i in range(n)], dtype=float)
        return sps.csr_matrix(A), lift_array(A)
    if kind == "adarray":
        a = mk_ad(ctx, tag, n, 3)
        return a, (a.val, dense(a.jac))
    if kind == "scalar":
        return 2.5, None
    raise ValueError(kind)


def _dense_result(res):
    import porepy as pp

    if isinstance(res, pp.ad.AdArray):
        return ("ad", np.asarray(res.val, dtype=object), dense(res.jac))
    if isinstance(res, SymSparse) or sps.issparse(res):
        return ("mat", dense(res))
    return ("arr", np.asarray(res, dtype=object))


def _check_equal(ctx, name, got, exp, case):
    g = np.asarray(got, dtype=object)
    e = np.asarray(exp, dtype=object)
    ctx.check(f"shape[{name}]", g.shape == e.shape, case)
    if g.shape != e.shape:
        return
    for idx in np.ndindex(*g.shape):
        ctx.check(f"entry[{name}]", lift(g[idx]) == lift(e[idx]), case)


def single_harness(ctx, spec, kind, transposed):
    P = _matrix(spec)
    S = _mk_slicer(spec)
    if transposed:
        S = S.T
        P = P.T
    n = P.shape[1]
    y, yd = _operand(ctx, kind, n)
    inputs = {"spec": spec, "kind": kind, "transposed": transposed,
              "y": (yd if kind != "adarray" else {"val": yd[0], "jac": yd[1]}) if kind != "scalar" else 2.5}

    def case(conc):
        return _json(conc(inputs))

    if kind == "adarray" and transposed:
        pass  # the docstring announces an error; the implementation applies P^T row-wise: checked as P^T
    res = S @ y
    tag = f"{kind}{'-T' if transposed else ''}"
    r = _dense_result(res)
    if kind == "adarray":
        ctx.check(f"type[{tag}]", r[0] == "ad", case)
        if r[0] == "ad":
            _check_equal(ctx, tag + ".val", r[1], _pmul(P, yd[0]), case)
            _check_equal(ctx, tag + ".jac", r[2], _pmul(P, yd[1]), case)
    elif kind == "scalar":
        full = np.empty(n, dtype=object)
        full.fill(2.5)
        _check_equal(ctx, tag, r[-1], _pmul(P, full), case)
    else:
        _check_equal(ctx, tag, r[-1], _pmul(P, yd), case)
    m = ctx.reach("end")
    if m is not None and kind != "scalar":
        ctx.validate_replay("float-run", case, model=m)
    if ctx.rep.paths % 97 == 0:
        ctx.sample({"slicer": spec, "operand": kind, "transposed": transposed})


def chain_harness(ctx, chain):
    """chain: {'specs': [spec0, spec1?, spec2?], 'pre': op or None, 'kind': operand}"""
    specs, pre, kind = chain["specs"], chain["pre"], chain["kind"]
    Ps = [_matrix(s) for s in specs]
    Ss = [_mk_slicer(s) for s in specs]
    n = Ps[-1].shape[1]
    y, yd = _operand(ctx, kind, n)
    inputs = {"chain": chain, "y": yd if kind != "adarray" else {"val": yd[0], "jac": yd[1]}}

    def case(conc):
        return _json(conc(inputs))

    # expression: [pre-operand op] S0 @ S1 @ ... @ y   evaluated left to right by Python
    expr = Ss[0]
    A = None
    if pre is not None:
        if pre[0] == "@":
            m0 = Ps[0].shape[0]
            D = np.empty((2, m0), dtype=object)
            for i in range(2):
                for j in range(m0):
                    D[i, j] = ctx.real(f"A_{i}_{j}")
            A = SymSparse(D, "csr")
            inputs["A"] = D.copy()
            expr = A @ expr
        elif pre[0] == "*":
            expr = 2.0 * expr
        elif pre[0] == "-":
            expr = 3 - expr
        elif pre[0] == "+":
            expr = 1.5 + expr
        elif pre[0] == "/":
            expr = 2.0 / expr
        elif pre[0] == "**":
            expr = 2.0 ** expr
    for S in Ss[1:]:
        expr = expr @ S
    res = expr @ y

    def apply_all(v):
        for P in reversed(Ps):
            v = _pmul(P, v)
        return v

    def post(v):
        if pre is None:
            return v
        v = np.asarray(v, dtype=object)
        if pre[0] == "@":
            return np.dot(np.asarray(A.A_, dtype=object), v)
        if pre[0] == "*":
            return 2.0 * v.view(SymArr)
        if pre[0] == "-":
            return 3 - v.view(SymArr)
        if pre[0] == "+":
            return 1.5 + v.view(SymArr)
        if pre[0] == "/":
            return 2.0 / v.view(SymArr)
        return 2.0 ** v.view(SymArr)

    r = _dense_result(res)
    tag = f"chain{len(specs)}{pre[0] if pre else ''}:{kind}"
    if kind == "adarray":
        if pre is not None and pre[0] in ("/", "**"):
            return
        ctx.check(f"type[{tag}]", r[0] == "ad", case)
        if r[0] == "ad":
            _check_equal(ctx, tag + ".val", r[1], post(apply_all(yd[0])), case)
            jexp = apply_all(yd[1])
            if pre is None or pre[0] == "+":
                pass
            elif pre[0] == "@":
                jexp = np.dot(np.asarray(A.A_, dtype=object), np.asarray(jexp, dtype=object))
            elif pre[0] == "*":
                jexp = 2.0 * np.asarray(jexp, dtype=object).view(SymArr)
            elif pre[0] == "-":
                jexp = -np.asarray(jexp, dtype=object).view(SymArr)
            _check_equal(ctx, tag + ".jac", r[2], jexp, case)
    else:
        base = apply_all(yd)
        if pre is not None and pre[0] == "/":
            for x in np.asarray(base, dtype=object).ravel().tolist():
                if isinstance(x, SReal):
                    ctx.assume(lift(x) != 0)
                elif x == 0:
                    return  # division by a structural zero: outside the smooth domain
        _check_equal(ctx, tag, r[-1], post(base), case)
    ctx.reach("end")
    if ctx.rep.paths % 37 == 0:
        ctx.sample({"chain": chain})


def _chains(count, seed, maxk):
    import random

    rnd = random.Random(77 + seed)
    out = []
    pres = [None, ("@",), ("*",), ("-",), ("+",), ("/",), ("**",)]
    kinds = ["vec", "arr2d", "symsparse", "adarray"]
    tries = 0
    while len(out) < count and tries < 100 * count:
        tries += 1
        L = rnd.choice([1, 2, 2, 3])
        sizes = [rnd.randint(2, 4) for _ in range(L + 1)]  # sizes[i] = range of slicer i, sizes[i+1] = domain
        specs = []
        for i in range(L):
            rs, ds = sizes[i], sizes[i + 1]
            k = rnd.randint(1, min(maxk, rs, ds))
            d = rnd.sample(range(ds), k)
            r = rnd.sample(range(rs), k)
            specs.append((d, r, rs, ds))
        pre = rnd.choice(pres)
        kind = rnd.choice(kinds)
        if pre is not None and pre[0] in ("/",) and kind in ("symsparse",):
            continue
        if pre is not None and pre[0] in ("**", "/", "+", "-") and kind == "symsparse":
            continue  # scalar (+,-,/,**) sparse matrix is not defined by scipy either
        if L == 1 and pre is None:
            continue
        if pre is not None and pre[0] == "/":
            Pall = _matrix(specs[0])
            for sp in specs[1:]:
                Pall = Pall @ _matrix(sp)
            if not np.all(Pall.sum(axis=1) == 1):
                continue  # 2.0 / (S @ y) divides by structural zeros: outside the smooth domain
        out.append({"specs": specs, "pre": list(pre) if pre else None, "kind": kind})
    return out


def run_shard(ex, shard):
    if shard["kind"] == "single":
        for spec in shard["sets"]:
            for kind in OPERANDS:
                for tr in (False, True):
                    if tr and kind == "scalar":
                        continue
                    ex.run(single_harness, label=f"{spec}:{kind}:{tr}", args=(spec, kind, tr))
    else:
        for ch in _chains(shard["count"], shard["seed"], shard["maxk"]):
            ex.run(chain_harness, label=f"chain:{ch}", args=(ch,))


def _json(c):
    if isinstance(c, dict):
        return {k: _json(v) for k, v in c.items()}
    if isinstance(c, np.ndarray):
        return c.tolist()
    if isinstance(c, (list, tuple)):
        return [_json(v) for v in c]
    if isinstance(c, (np.integer,)):
        return int(c)
    return c


# ---------------------------------------------------------------- real-code side


def _real_operand(kind, y):
    import porepy as pp

    if kind in ("vec", "arr2d"):
        return np.array(y, dtype=float), np.array(y, dtype=float)
    if kind in ("symsparse", "realsparse"):
        A = np.array(y, dtype=float)
        return sps.csr_matrix(A), A
    if kind == "adarray":
        v, j = np.array(y["val"], dtype=float), np.array(y["jac"], dtype=float)
        return pp.ad.AdArray(v, sps.csr_matrix(j)), (v, j)
    return 2.5, None


def concrete_run(case):
    raise NotImplementedError


def replay_case(case):
    import porepy as pp

    if "chain" in case:
        ch = case["chain"]
        specs = [tuple(s) for s in ch["specs"]]
        Ps = [_matrix(s) for s in specs]
        Ss = [_mk_slicer(s) for s in specs]
        y, yd = _real_operand(ch["kind"], case["y"])
        pre = ch["pre"]
        expr = Ss[0]
        Areal = None
        if pre and pre[0] == "@":
            Areal = np.array(case["A"], dtype=float)
            expr = sps.csr_matrix(Areal) @ expr
        elif pre:
            expr = {"*": lambda: 2.0 * expr, "-": lambda: 3 - expr, "+": lambda: 1.5 + expr,
                    "/": lambda: 2.0 / expr, "**": lambda: 2.0 ** expr}[pre[0]]()
        for S in Ss[1:]:
            expr = expr @ S
        res = expr @ y
        Pall = Ps[0]
        for P in Ps[1:]:
            Pall = Pall @ P

        def post(v):
            if not pre:
                return v
            if pre[0] == "@":
                return Areal @ v
            return {"*": lambda: 2.0 * v, "-": lambda: 3 - v, "+": lambda: 1.5 + v,
                    "/": lambda: 2.0 / v, "**": lambda: 2.0 ** v}[pre[0]]()

        if ch["kind"] == "adarray":
            if not isinstance(res, pp.ad.AdArray):
                return True, f"result type {type(res)}"
            ev = post(Pall @ yd[0])
            if res.val.shape != ev.shape or not np.allclose(res.val, ev):
                return True, f"chain value {res.val} != {ev}"
            return False, "ok"
        got = res.toarray() if sps.issparse(res) else np.asarray(res)
        with np.errstate(all="ignore"):
            ev = post(Pall @ yd)
        if got.shape != ev.shape or not np.allclose(got, ev, equal_nan=True):
            return True, f"chain result {got.tolist()} != projection-matrix result {ev.tolist()}"
        return False, "ok"
    spec = tuple(case["spec"])
    P = _matrix(spec)
    S = _mk_slicer(spec)
    if case["transposed"]:
        S, P = S.T, P.T
    y, yd = _real_operand(case["kind"], case["y"])
    res = S @ y
    if case["kind"] == "adarray":
        if not isinstance(res, pp.ad.AdArray):
            return True, f"result type {type(res)}"
        ev, ej = P @ yd[0], P @ yd[1]
        gj = res.jac.toarray()
        if res.val.shape != ev.shape or not np.allclose(res.val, ev):
            return True, f"AdArray value {res.val} != P@val {ev}"
        if gj.shape != ej.shape or not np.allclose(gj, ej):
            return True, f"AdArray jacobian {gj.tolist()} != P@jac {ej.tolist()}"
        return False, "ok"
    if case["kind"] == "scalar":
        yd = np.full(P.shape[1], 2.5)
    got = res.toarray() if sps.issparse(res) else np.asarray(res)
    ev = P @ yd
    if got.shape != ev.shape or not np.allclose(got, ev):
        return True, f"S @ y = {got.tolist()} but P @ y = {ev.tolist()} for slicer {spec} transposed={case['transposed']}"
    return False, "ok"
