"""C03 — model Jacobians are the derivative of the model residual.

Each shipped model is prepared concretely (real grids and discretization matrices) and then
EquationSystem.assemble(state=x) is executed on a symbolic state x (and symbolic stored
previous-time values): the parser, operators, constitutive laws and forward-mode AD produce
residual terms r_i(x) and Jacobian terms J_ij(x).  Oracle: d r_i / d x_j by the independent
symbolic differentiator.
"""
from __future__ import annotations

import numpy as np
import scipy.sparse as sps
import z3

from ..adutil import bound_exp_applications, dense
from ..arr import SymArr, sa
from ..diff import zdiff
from ..sym import UF, SReal, lift, rv

PID = "C03"
TARGET_PREFIXES = ("models/", "numerics/ad/equation_system", "numerics/ad/_ad_parser",
                   "numerics/ad/forward_mode", "numerics/ad/operators")

META = {
    "explanation": "assemble(state=symbolic) through the real model equations; J_ij = -d b_i / d x_j entry-wise",
    "assumptions": [
        "floats as exact reals; exp/log are uninterpreted symbols with the textbook derivative",
        "discretization matrices held fixed at their concrete values (prepared with real numpy/scipy)",
        "state in a box |x - x_ref| <= 1 around the model's initial state (smooth region); branches of "
        "maximum/heaviside-type operators fork on the code's own comparisons",
        "two-stage equality (exact, then 1e-9 relative tolerance) for interpreter-rounded concrete scalars",
        "range axioms for every exp(t) occurring: -4 <= t <= 4 and 1/64 <= exp(t) <= 64",
        "2x2 Cartesian grids (cell size 1/2), at most one Cartesian fracture (flow/energy models only)",
    ],
    "stubs": ["sha256 of leaf data for symbolic arrays", "sparse products on symbolic data -> SymSparse"],
    "outside": ["simplex grids", "contact mechanics with fractures in the mechanics models (non-smooth)",
                "re-discretization (upwind directions etc. are fixed at the prepared state)"],
}

MODELS = {
    "SinglePhaseFlow/0": ("SinglePhaseFlow", 0),
    "SinglePhaseFlow/1": ("SinglePhaseFlow", 1),
    "MassAndEnergyBalance/0": ("MassAndEnergyBalance", 0),
    "MassAndEnergyBalance/1": ("MassAndEnergyBalance", 1),
    "MomentumBalance/0": ("MomentumBalance", 0),
    "Poromechanics/0": ("Poromechanics", 0),
    "Thermoporomechanics/0": ("Thermoporomechanics", 0),
    "MomentumBalance/1": ("MomentumBalance", 1),
    "Poromechanics/1": ("Poromechanics", 1),
}


def shards(tier, seed):
    if tier == "quick":
        names = ["SinglePhaseFlow/0", "SinglePhaseFlow/1", "MassAndEnergyBalance/0", "MomentumBalance/0",
                 "Poromechanics/0"]
    else:
        names = list(MODELS)
    return [{"model": n} for n in names]


def configure(cfg, tier):
    cfg.incremental_first = False
    cfg.sample_cex = True
    cfg.query_timeout_ms = 20000 if tier == "quick" else 60000
    cfg.max_paths = 64


_CACHE = {}


def build_model(name):
    if name in _CACHE:
        return _CACHE[name]
    import logging

    import porepy as pp
    from porepy.applications.md_grids.model_geometries import SquareDomainOrthogonalFractures

    logging.disable(logging.CRITICAL)
    base, nfrac = MODELS[name]

    class M(SquareDomainOrthogonalFractures, getattr(pp, base)):
        def meshing_arguments(self):
            return {"cell_size": 0.5}

        def set_fractures(self):
            self._fractures = [pp.LineFracture(np.array([[0.5, 0.5], [0.0, 1.0]]))][:nfrac]

        def grid_type(self):
            return "cartesian"

    params = {
        "times_to_export": [],
        "material_constants": {
            "fluid": pp.FluidComponent(compressibility=0.5, density=2.0, viscosity=2.0,
                                       thermal_expansion=0.25, specific_heat_capacity=2.0,
                                       thermal_conductivity=0.5),
            "solid": pp.SolidConstants(porosity=0.25, permeability=0.5, lame_lambda=2.0, shear_modulus=1.0,
                                       biot_coefficient=0.5, thermal_expansion=0.125, specific_heat_capacity=1.5,
                                       thermal_conductivity=2.0, density=3.0, normal_permeability=0.5,
                                       residual_aperture=0.125, specific_storage=0.25),
        },
        "time_manager": pp.TimeManager([0.0, 1.0], 0.5, constant_dt=True),
    }
    m = M(params)
    m.prepare_simulation()
    _CACHE[name] = m
    return m


def harness(ctx, name):
    m = build_model(name)
    es = m.equation_system
    n = es.num_dofs()
    x_ref = es.get_variable_values(iterate_index=0).copy()
    xp_ref = es.get_variable_values(time_step_index=0).copy()
    x = np.empty(n, dtype=object)
    xp = np.empty(n, dtype=object)
    for i in range(n):
        x[i] = ctx.real(f"x{i}", float(x_ref[i]) - 1, float(x_ref[i]) + 1)
        xp[i] = ctx.real(f"xp{i}", float(xp_ref[i]) - 1, float(xp_ref[i]) + 1)
    x, xp = x.view(SymArr), xp.view(SymArr)
    inputs = {"model": name, "x": x.copy(), "xp": xp.copy()}

    def case(conc):
        c = conc(inputs)
        return {"model": name, "x": np.asarray(c["x"]).tolist(), "xp": np.asarray(c["xp"]).tolist()}

    es.set_variable_values(xp, time_step_index=0)
    # the stored current iterate is the state itself (as in a Newton loop): anything read from
    # the iterate storage instead of the AD state shows up as a dependence without Jacobian
    es.set_variable_values(x, iterate_index=0)
    try:
        J, b = es.assemble(state=x)
        b_only = es.assemble(evaluate_jacobian=False)
    finally:
        es.set_variable_values(xp_ref, time_step_index=0)
        es.set_variable_values(x_ref, iterate_index=0)
    Jd = dense(J)
    b = np.asarray(b, dtype=object)
    ctx.check("shape", Jd.shape == (n, n) and b.shape == (n,) and np.shape(b_only) == (n,), case)
    xs = [lift(v) for v in x.tolist()]
    nexp = bound_exp_applications(ctx, [lift(v) for v in b.tolist()] + [lift(v) for v in Jd.ravel().tolist()])
    ctx.rep.extra["exp_applications_bounded"] = ctx.rep.extra.get("exp_applications_bounded", 0) + nexp
    nontrivial = 0
    for i in range(n):
        bi = lift(b[i])
        ctx.check_close("residual-only-assembly", np.asarray(b_only, dtype=object)[i], bi, case)
        for j in range(n):
            ref = z3.simplify(-zdiff(bi, xs[j], ctx))
            if not (z3.is_rational_value(ref) and ref.as_fraction() == 0):
                nontrivial += 1
            ctx.check_close("jacobian-entry", Jd[i, j], ref, case)
    ctx.rep.extra["nonzero_derivative_entries"] = ctx.rep.extra.get("nonzero_derivative_entries", 0) + nontrivial
    mod = ctx.reach("end")
    if mod is not None:
        ctx.validate("assemble", {"J": Jd, "b": b}, case, model=mod, true_functions=True, rtol=1e-6, atol=1e-8)
    ctx.sample({"model": name, "dofs": n, "path": ctx.idx, "equations": list(es.equations.keys()),
                "b0": str(b[0])[:200]})


def run_shard(ex, shard):
    build_model(shard["model"])
    ex.run(harness, label=shard["model"], args=(shard["model"],))


# ---------------------------------------------------------------- real-code side


def _real_assemble(case):
    m = build_model(case["model"])
    es = m.equation_system
    x = np.array(case["x"], dtype=float)
    xp = np.array(case["xp"], dtype=float)
    keep = es.get_variable_values(time_step_index=0).copy()
    keep_it = es.get_variable_values(iterate_index=0).copy()
    es.set_variable_values(xp, time_step_index=0)
    try:
        es.set_variable_values(x, iterate_index=0)
        J, b = es.assemble()

        def res(z):
            es.set_variable_values(z, iterate_index=0)
            return es.assemble(evaluate_jacobian=False)

        h = 1e-6
        fd = np.zeros((x.size, x.size))
        for k in range(x.size):
            zp, zm = x.copy(), x.copy()
            zp[k] += h
            zm[k] -= h
            fd[:, k] = (res(zp) - res(zm)) / (2 * h)
    finally:
        es.set_variable_values(keep, time_step_index=0)
        es.set_variable_values(keep_it, iterate_index=0)
    return J.toarray(), np.asarray(b), fd


def concrete_run(case):
    J, b, _ = _real_assemble(case)
    return {"J": J, "b": b}


def replay_case(case):
    """Directional derivatives of the assembled residual by central differences vs the Jacobian."""
    J, b, fd = _real_assemble(case)
    ref = -fd
    err = np.abs(J - ref)
    tol = 1e-5 * (1 + np.abs(ref).max())
    if err.max() > tol:
        i, j = np.unravel_index(np.argmax(err), err.shape)
        return True, (f"{case['model']}: J[{i},{j}] = {J[i, j]} but -d b_{i}/d x_{j} = {ref[i, j]} "
                      f"(central difference of the assembled residual)")
    return False, "Jacobian matches finite differences of the residual"
