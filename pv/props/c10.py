"""C10 — the simulation driver keeps solution state consistent across failures.

The real run_time_dependent_model / NewtonSolver.solve / SolutionStrategy callbacks / TimeManager
run on a small prepared SinglePhaseFlow model.  Environment stubs (nondeterministic, the fault
injector): solve_linear_system returns a fresh symbolic increment, check_convergence returns
symbolic (converged, diverged) flags; assembly of the linear system, re-discretization and data
export are empty.  Ghost state kept by the harness: the list of accepted solutions.
"""
from __future__ import annotations

import itertools

import numpy as np
import z3

from ..arr import SymArr
from ..sym import SBool, SReal, lift

PID = "C10"
TARGET_PREFIXES = ("models/run_models", "models/solution_strategy", "numerics/nonlinear/nonlinear_solvers",
                   "numerics/time_step_control", "numerics/ad/ad_utils", "numerics/ad/equation_system")

MAX_IT = 2

META = {
    "explanation": "driver + Newton loop + solution-strategy callbacks + time manager under every pattern of "
                   "symbolic convergence / divergence flags and symbolic Newton increments",
    "assumptions": [
        "floats as exact reals; time manager with concrete dyadic parameters (schedule [0,1], dt_init 1/2, "
        "dt in [1/8, 1/2], recomputation factor 1/2)",
        "a step never reports converged and diverged at once",
    ],
    "stubs": [
        "assemble_linear_system: no-op; solve_linear_system: fresh symbolic increment vector",
        "check_convergence: symbolic (converged, diverged) flags - the fault injector",
        "update_derived_quantities / rediscretize / save_data_time_step: no-op (not state bookkeeping)",
    ],
    "outside": ["runs with more Newton solves than the stated bound are cut (reported as unexplored)",
                "constant time step mode", "linear problems"],
}

OUTCOMES = ["conv1", "conv2", "conv3", "div1", "div2", "div3", "exhausted"]


def shards(tier, seed):
    out = []
    for first in OUTCOMES:
        out.append({"first": first, "max_solves": 4 if tier == "quick" else 6, "recomp_max": 2, "depth": 2})
    if tier == "thorough":
        for first in OUTCOMES:
            out.append({"first": first, "max_solves": 5, "recomp_max": 3, "depth": 1})
    return out


def configure(cfg, tier):
    cfg.incremental_first = True
    cfg.max_paths = 3000 if tier == "quick" else 40000


class _Cut(Exception):
    pass


_CACHE = {}


def build_model(recomp_max, depth):
    key = (recomp_max, depth)
    if key in _CACHE:
        return _CACHE[key]
    import logging

    import porepy as pp
    from porepy.applications.md_grids.model_geometries import SquareDomainOrthogonalFractures

    logging.disable(logging.CRITICAL)

    class M(SquareDomainOrthogonalFractures, pp.SinglePhaseFlow):
        pv = None  # harness channel

        def meshing_arguments(self):
            return {"cell_size": 0.5}

        def set_fractures(self):
            self._fractures = []

        def grid_type(self):
            return "cartesian"

        @property
        def time_step_indices(self):
            return np.arange(depth)

        # ---- environment stubs
        def assemble_linear_system(self):
            pass

        def solve_linear_system(self):
            return self.pv["increment"]()

        def check_convergence(self, nonlinear_increment, residual, reference_residual, nl_params):
            return self.pv["flags"]()

        def save_data_time_step(self):
            pass

        def update_derived_quantities(self):
            pass

        def rediscretize(self):
            pass

        def _is_nonlinear_problem(self):
            return True

    def fresh_tm():
        return pp.TimeManager(schedule=[0.0, 1.0], dt_init=0.5, dt_min_max=(0.125, 0.5), iter_max=MAX_IT,
                              iter_optimal_range=(1, 2), iter_relax_factors=(0.5, 2.0), recomp_factor=0.5,
                              recomp_max=recomp_max)

    params = {"times_to_export": [], "time_manager": fresh_tm(),
              "material_constants": {"fluid": pp.FluidComponent(compressibility=0.5, density=2.0, viscosity=2.0)}}
    m = M(params)
    m.prepare_simulation()
    _CACHE[key] = (m, fresh_tm)
    return _CACHE[key]


def _forced(outcome, it):
    """(converged, diverged) of Newton iteration `it` (1-based) for a forced outcome."""
    if outcome.startswith("conv"):
        return (it == int(outcome[-1]), False)
    if outcome.startswith("div"):
        return (False, it == int(outcome[-1]))
    return (False, False)


def harness(ctx, shard):
    import porepy as pp

    m, fresh_tm = build_model(shard["recomp_max"], shard["depth"])
    es = m.equation_system
    n = es.num_dofs()
    depth = shard["depth"]
    m.time_manager = fresh_tm()
    m.convergence_status = False
    x0 = ctx.reals("x0", n)
    for i in range(depth):
        es.set_variable_values(x0.copy(), time_step_index=i)
    es.set_variable_values(x0.copy(), iterate_index=0)
    accepted = [x0.copy()]           # ghost: accepted solutions, most recent last
    accepted_times = [0.0]
    state = {"solve": 0, "it": 0, "iterate": x0.copy(), "incs": [], "flags": []}
    inputs = {"x0": x0.copy(), "incs": state["incs"], "flags": state["flags"], "shard": shard}

    def case(conc):
        c = conc({"x0": inputs["x0"], "incs": list(state["incs"]), "flags": list(state["flags"])})
        return {"x0": np.asarray(c["x0"]).tolist(), "incs": [np.asarray(v).tolist() for v in c["incs"]],
                "flags": [[bool(a), bool(b)] for a, b in c["flags"]], "shard": shard}

    def increment():
        k = len(state["incs"])
        d = ctx.reals(f"d{k}", n)
        state["incs"].append(d.copy())
        state["iterate"] = state["iterate"] + d
        return d

    def flags():
        state["it"] += 1
        k = len(state["flags"])
        if state["solve"] == 0:
            cv, dv = _forced(shard["first"], state["it"])
            state["flags"].append((cv, dv))
            return cv, dv
        cv, dv = ctx.boolean(f"conv{k}"), ctx.boolean(f"div{k}")
        ctx.assume(z3.Not(z3.And(cv.e, dv.e)))
        c, d = bool(cv), bool(dv)      # fork: the driver branches on them
        state["flags"].append((c, d))
        return c, d

    m.pv = {"increment": increment, "flags": flags}

    def eq(a, b):
        return z3.And([lift(p) == lift(q) for p, q in zip(np.asarray(a, dtype=object).tolist(),
                                                          np.asarray(b, dtype=object).tolist())])

    class Solver(pp.NewtonSolver):
        def solve(self_, model):
            if state["solve"] >= shard["max_solves"]:
                raise _Cut()
            state["it"] = 0
            state["iterate"] = es.get_variable_values(iterate_index=0)
            t_before = accepted_times[-1]
            conv = super().solve(model)
            tag = f"solve{state['solve']}"
            it0 = es.get_variable_values(iterate_index=0)
            ts0 = es.get_variable_values(time_step_index=0)
            if conv:
                accepted.append(state["iterate"].copy())
                accepted_times.append(float(model.time_manager.time))
                ctx.check("converged:time-step-0-equals-iterate", eq(ts0, it0), case)
                ctx.check("converged:stored-equals-summed-increments", eq(ts0, state["iterate"]), case)
                ctx.check("converged:status-flag", bool(model.convergence_status) is True, case)
            else:
                ctx.check("failed:iterate-reset-to-last-accepted", eq(it0, accepted[-1]), case)
                ctx.check("failed:time-step-0-is-last-accepted", eq(ts0, accepted[-1]), case)
                ctx.check("failed:clock-reset", float(model.time_manager.time) == t_before, case)
            for lvl in range(1, depth):
                want = accepted[-1 - lvl] if len(accepted) > lvl else accepted[0]
                ctx.check("history-level", eq(es.get_variable_values(time_step_index=lvl), want), case)
            state["solve"] += 1
            return conv

    params = {"prepare_simulation": False, "max_iterations": MAX_IT, "nl_convergence_tol": 1e-8,
              "nl_convergence_tol_res": np.inf, "nl_divergence_tol": np.inf, "nonlinear_solver": Solver,
              "progressbars": False}
    ended = "final-time"
    try:
        pp.run_time_dependent_model(m, params)
    except _Cut:
        ended = "cut"
        ctx.rep.extra["runs_cut_at_bound"] = ctx.rep.extra.get("runs_cut_at_bound", 0) + 1
    except ValueError as e:
        ended = "raised"
        # legitimate only once the recomputation budget is exhausted or dt hit dt_min
        tm = m.time_manager
        ctx.check("raise-only-when-budget-exhausted",
                  tm._recomp_num >= tm.recomp_max or tm.dt == tm.dt_min_max[0], case)
    if ended == "final-time":
        ctx.check("ends-at-final-time", bool(m.time_manager.final_time_reached())
                  and abs(float(m.time_manager.time) - 1.0) < 1e-12, case)
        ctx.check("final-history", eq(es.get_variable_values(time_step_index=0), accepted[-1]), case)
        ctx.check("accepted-times-increase", all(a < b for a, b in zip(accepted_times, accepted_times[1:])), case)
    mod = ctx.reach("end")
    if mod is not None and ctx.idx % 5 == 0:
        ctx.validate_replay("float-run", case, model=mod)
    if ctx.idx < 2:
        ctx.sample({"first": shard["first"], "path": ctx.idx, "solves": state["solve"], "ended": ended,
                    "flags": [list(map(bool, f)) for f in state["flags"]], "accepted_times": accepted_times})
    return ended


def run_shard(ex, shard):
    build_model(shard["recomp_max"], shard["depth"])
    ex.run(harness, label=f"first={shard['first']}/r{shard['recomp_max']}/d{shard['depth']}", args=(shard,))


# ---------------------------------------------------------------- real-code side


def concrete_run(case):
    raise NotImplementedError


def replay_case(case):
    """Same driver with the recorded flags and float increments on the real model."""
    import porepy as pp

    shard = case["shard"]
    m, fresh_tm = build_model(shard["recomp_max"], shard["depth"])
    es = m.equation_system
    depth = shard["depth"]
    m.time_manager = fresh_tm()
    x0 = np.array(case["x0"], dtype=float)
    for i in range(depth):
        es.set_variable_values(x0.copy(), time_step_index=i)
    es.set_variable_values(x0.copy(), iterate_index=0)
    incs = [np.array(v, dtype=float) for v in case["incs"]]
    flags = [tuple(f) for f in case["flags"]]
    st = {"i": 0, "f": 0, "iterate": x0.copy(), "solve": 0}
    accepted, times = [x0.copy()], [0.0]
    problems = []

    class Stop(Exception):
        pass

    def increment():
        if st["i"] >= len(incs):
            raise Stop()
        d = incs[st["i"]]
        st["i"] += 1
        st["iterate"] = st["iterate"] + d
        return d.copy()

    def fl():
        if st["f"] >= len(flags):
            raise Stop()
        f = flags[st["f"]]
        st["f"] += 1
        return f

    m.pv = {"increment": increment, "flags": fl}
    close = lambda a, b: np.allclose(a, b, rtol=1e-12, atol=1e-12)  # noqa: E731

    class Solver(pp.NewtonSolver):
        def solve(self_, model):
            st["iterate"] = es.get_variable_values(iterate_index=0)
            t_before = times[-1]
            conv = super().solve(model)
            it0, ts0 = es.get_variable_values(iterate_index=0), es.get_variable_values(time_step_index=0)
            k = st["solve"]
            if conv:
                accepted.append(st["iterate"].copy())
                times.append(float(model.time_manager.time))
                if not close(ts0, it0) or not close(ts0, st["iterate"]):
                    problems.append(f"solve {k} converged: stored time-step values {ts0} != converged iterate {st['iterate']}")
            else:
                if not close(it0, accepted[-1]):
                    problems.append(f"solve {k} failed: iterate {it0} not reset to last accepted {accepted[-1]}")
                if not close(ts0, accepted[-1]):
                    problems.append(f"solve {k} failed: time-step values {ts0} != last accepted {accepted[-1]}")
                if float(model.time_manager.time) != t_before:
                    problems.append(f"solve {k} failed: clock {model.time_manager.time} not reset to {t_before}")
            for lvl in range(1, depth):
                want = accepted[-1 - lvl] if len(accepted) > lvl else accepted[0]
                if not close(es.get_variable_values(time_step_index=lvl), want):
                    problems.append(f"after solve {k}: history level {lvl} is not the {lvl}-th previous accepted solution")
            st["solve"] += 1
            return conv

    params = {"prepare_simulation": False, "max_iterations": MAX_IT, "nl_convergence_tol": 1e-8,
              "nl_convergence_tol_res": np.inf, "nl_divergence_tol": np.inf, "nonlinear_solver": Solver,
              "progressbars": False}
    try:
        pp.run_time_dependent_model(m, params)
        if abs(float(m.time_manager.time) - 1.0) > 1e-12:
            problems.append(f"run ended at time {m.time_manager.time}")
        if not close(es.get_variable_values(time_step_index=0), accepted[-1]):
            problems.append("final stored solution is not the last accepted one")
    except Stop:
        pass
    except ValueError as e:
        tm = m.time_manager
        if not (tm._recomp_num >= tm.recomp_max or tm.dt == tm.dt_min_max[0]):
            problems.append(f"ValueError before the recomputation budget was exhausted: {e}")
    if problems:
        return True, "; ".join(problems[:3])
    return False, "consistent"
