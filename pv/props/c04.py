"""C04 — flow and energy models conserve mass and energy discretely.

Closed (all-Neumann, zero) boundaries, no sources.  The balance equation residual is evaluated
by the real model code on a symbolic state (pressures, temperatures, interface fluxes - arbitrary,
not converged) and symbolic previous-time values; z3 decides that the sum of the residual over all
cells of all subdomains equals the rate of change of the accumulated quantity, i.e. that all
inter-cell and interface fluxes cancel.
"""
from __future__ import annotations

import numpy as np
import z3

from ..adutil import bound_exp_applications
from ..arr import SymArr
from ..sym import SReal, lift, rv

PID = "C04"
TARGET_PREFIXES = ("models/fluid_mass_balance", "models/energy_balance", "models/abstract_equations",
                   "models/constitutive_laws", "numerics/ad/grid_operators", "numerics/ad/")

META = {
    "explanation": "sum over all cells of the mass / energy balance residual = d/dt of the accumulated quantity, "
                   "for every state, on closed domains with 0, 1 and 2 (crossing) Cartesian fractures",
    "assumptions": [
        "floats as exact reals; exp is an uninterpreted symbol with range axioms",
        "discretization matrices (MPFA/TPFA, upwind at the prepared state, mortar projections) fixed at their "
        "concrete values", "state within +-1 of the initial state; time step 1/2",
        "two-stage equality (exact, then 1e-9 relative tolerance)",
    ],
    "stubs": ["sparse products on symbolic data -> SymSparse"],
    "outside": ["simplex grids (gmsh)", "non-matching grids other than the two refinement-ratio pairs listed in CONFIGS", "3 or more fractures", "non-zero boundary fluxes and sources"],
}

CONFIGS = {
    # name: (base model, fracture indices, compressibility)
    "flow/0/compressible": ("SinglePhaseFlow", [], 0.5),
    "flow/1/compressible": ("SinglePhaseFlow", [1], 0.5),
    "flow/1/incompressible": ("SinglePhaseFlow", [1], 0.0),
    "flow/2/compressible": ("SinglePhaseFlow", [0, 1], 0.5),
    "energy/0/compressible": ("MassAndEnergyBalance", [], 0.5),
    "energy/1/compressible": ("MassAndEnergyBalance", [1], 0.5),
    "energy/2/compressible": ("MassAndEnergyBalance", [0, 1], 0.5),
    "energy/1/incompressible": ("MassAndEnergyBalance", [1], 0.0),
    # non-matching fracture / mortar grids (fracture refinement ratio, interface refinement ratio)
    "flow/1/compressible/nonmatching-1-2": ("SinglePhaseFlow", [1], 0.5, (1, 2)),
    "flow/1/compressible/nonmatching-4-2": ("SinglePhaseFlow", [1], 0.5, (4, 2)),
    "energy/1/compressible/nonmatching-1-2": ("MassAndEnergyBalance", [1], 0.5, (1, 2)),
}


def shards(tier, seed):
    if tier == "quick":
        names = ["flow/0/compressible", "flow/1/compressible", "flow/1/incompressible", "energy/1/compressible",
                 "flow/1/compressible/nonmatching-1-2"]
    else:
        names = list(CONFIGS)
    return [{"config": n} for n in names]


def configure(cfg, tier):
    cfg.incremental_first = False
    cfg.sample_cex = True
    cfg.query_timeout_ms = 30000 if tier == "quick" else 120000
    cfg.max_paths = 32


_CACHE = {}


def build_model(name):
    if name in _CACHE:
        return _CACHE[name]
    import logging

    import porepy as pp
    from porepy.applications.md_grids.model_geometries import (NonMatchingSquareDomainOrthogonalFractures,
                                                               SquareDomainOrthogonalFractures)

    logging.disable(logging.CRITICAL)
    base, fracs, compr = CONFIGS[name][:3]
    ratios = CONFIGS[name][3] if len(CONFIGS[name]) > 3 else None
    Geometry = NonMatchingSquareDomainOrthogonalFractures if ratios else SquareDomainOrthogonalFractures

    class M(Geometry, getattr(pp, base)):
        def meshing_arguments(self):
            return {"cell_size": 0.5}

        def grid_type(self):
            return "cartesian"

        # closed domain: homogeneous Neumann conditions everywhere
        def _neu(self, sd):
            return pp.BoundaryCondition(sd, self.domain_boundary_sides(sd).all_bf, "neu")

        def bc_type_darcy_flux(self, sd):
            return self._neu(sd)

        def bc_type_fluid_flux(self, sd):
            return self._neu(sd)

        def bc_type_fourier_flux(self, sd):
            return self._neu(sd)

        def bc_type_enthalpy_flux(self, sd):
            return self._neu(sd)

    params = {
        "times_to_export": [],
        "fracture_indices": fracs,
        "material_constants": {
            "fluid": pp.FluidComponent(compressibility=compr, density=2.0, viscosity=2.0,
                                       thermal_expansion=0.25, specific_heat_capacity=2.0,
                                       thermal_conductivity=0.5, normal_thermal_conductivity=0.5),
            "solid": pp.SolidConstants(porosity=0.25, permeability=0.5, thermal_expansion=0.125,
                                       specific_heat_capacity=1.5, thermal_conductivity=2.0, density=3.0,
                                       normal_permeability=0.5, residual_aperture=0.125),
        },
        "time_manager": pp.TimeManager([0.0, 1.0], 0.5, constant_dt=True),
    }
    if ratios:
        params["fracture_refinement_ratio"], params["interface_refinement_ratio"] = ratios
    m = M(params)
    m.prepare_simulation()
    _CACHE[name] = m
    return m


def _balances(m):
    """[(equation name, accumulation operator)] of the model."""
    sds = m.mdg.subdomains()
    out = [("mass_balance_equation", m.fluid_mass(sds))]
    if hasattr(m, "total_internal_energy"):
        out.append(("energy_balance_equation", m.volume_integral(m.total_internal_energy(sds), sds, dim=1)))
    return out


def harness(ctx, name):
    m = build_model(name)
    es = m.equation_system
    n = es.num_dofs()
    x_ref = es.get_variable_values(iterate_index=0).copy()
    xp_ref = es.get_variable_values(time_step_index=0).copy()
    x = np.empty(n, dtype=object)
    xp = np.empty(n, dtype=object)
    for i in range(n):
        x[i] = ctx.real(f"x{i}", float(x_ref[i]) - 1, float(x_ref[i]) + 1)
        xp[i] = ctx.real(f"xp{i}", float(xp_ref[i]) - 1, float(xp_ref[i]) + 1)
    x, xp = x.view(SymArr), xp.view(SymArr)
    inputs = {"x": x.copy(), "xp": xp.copy()}

    def case(conc):
        c = conc(inputs)
        return {"config": name, "x": np.asarray(c["x"]).tolist(), "xp": np.asarray(c["xp"]).tolist()}

    dt = float(m.time_manager.dt)
    es.set_variable_values(xp, time_step_index=0)
    es.set_variable_values(x, iterate_index=0)
    try:
        for eqname, acc in _balances(m):
            res = np.asarray(es.evaluate(es.equations[eqname], derivative=False, state=x), dtype=object)
            a_now = np.asarray(es.evaluate(acc, derivative=False, state=x), dtype=object)
            a_old = np.asarray(es.evaluate(acc.previous_timestep(), derivative=False, state=x), dtype=object)
            total_res = z3.Sum([lift(v) for v in res.tolist()])
            rate = z3.Sum([lift(v) for v in a_now.tolist()]) - z3.Sum([lift(v) for v in a_old.tolist()])
            rate = rate / rv(dt)
            bound_exp_applications(ctx, [total_res, rate])
            ctx.check("cells-covered", res.shape == a_now.shape == a_old.shape
                      and res.size == sum(sd.num_cells for sd in m.mdg.subdomains()), case)
            ctx.check_close(f"conservation[{eqname}]", SReal(total_res), SReal(rate), case)
            # the same through the Jacobian path (value of the AdArray)
            res_ad = es.evaluate(es.equations[eqname], derivative=True, state=x)
            ctx.check_close(f"conservation-ad-value[{eqname}]",
                            SReal(z3.Sum([lift(v) for v in np.asarray(res_ad.val, dtype=object).tolist()])),
                            SReal(rate), case)
            ctx.sample({"config": name, "equation": eqname, "dofs": n, "cells": int(res.size),
                        "sum_residual": str(z3.simplify(total_res))[:300]})
    finally:
        es.set_variable_values(xp_ref, time_step_index=0)
        es.set_variable_values(x_ref, iterate_index=0)
    mod = ctx.reach("end")
    if mod is not None:
        ctx.validate_replay("float-run", case, model=mod)


def run_shard(ex, shard):
    build_model(shard["config"])
    ex.run(harness, label=shard["config"], args=(shard["config"],))


# ---------------------------------------------------------------- real-code side


def concrete_run(case):
    raise NotImplementedError


def replay_case(case):
    m = build_model(case["config"])
    es = m.equation_system
    x, xp = np.array(case["x"], dtype=float), np.array(case["xp"], dtype=float)
    keep_t = es.get_variable_values(time_step_index=0).copy()
    keep_i = es.get_variable_values(iterate_index=0).copy()
    dt = float(m.time_manager.dt)
    es.set_variable_values(xp, time_step_index=0)
    es.set_variable_values(x, iterate_index=0)
    try:
        for eqname, acc in _balances(m):
            res = np.asarray(es.evaluate(es.equations[eqname], derivative=False, state=x), dtype=float)
            a_now = np.asarray(es.evaluate(acc, derivative=False, state=x), dtype=float)
            a_old = np.asarray(es.evaluate(acc.previous_timestep(), derivative=False, state=x), dtype=float)
            rate = (a_now.sum() - a_old.sum()) / dt
            scale = 1 + np.abs(res).sum() + abs(rate)
            if abs(res.sum() - rate) > 1e-8 * scale:
                return True, (f"{case['config']} {eqname}: sum of residuals {res.sum()} != rate of change "
                              f"{rate} of the accumulated quantity (difference {res.sum() - rate})")
    finally:
        es.set_variable_values(keep_t, time_step_index=0)
        es.set_variable_values(keep_i, iterate_index=0)
    return False, "conserved"
