"""Sound interval evaluation of z3 arithmetic terms over the box of the declared symbols.

Used only to *prune*: a branch side (or a sign) that the box alone refutes is not sent to the
solver.  All bounds are exact fractions; anything not understood evaluates to None (= unknown).
"""
from __future__ import annotations

import fractions
import math

import z3

F = fractions.Fraction


def _num(e):
    if z3.is_rational_value(e):
        return e.as_fraction()
    if z3.is_int_value(e):
        return F(e.as_long())
    return None


def _mul(a, b):
    ps = [a[0] * b[0], a[0] * b[1], a[1] * b[0], a[1] * b[1]]
    return (min(ps), max(ps))


def sqrt_bounds(lo, hi):
    """Rational enclosure of [sqrt(lo+), sqrt(hi)]."""
    lo = max(lo, F(0))
    hi = max(hi, F(0))
    scale = 1 << 40

    def down(x):
        return F(math.isqrt(int(x * scale * scale)), scale)

    def up(x):
        n = x * scale * scale
        r = math.isqrt(int(n))
        if r * r < n:
            r += 1
        return F(r + 1, scale)

    return (down(lo), up(hi))


def ival(e, env, cache=None):
    """(lo, hi) enclosing the term e for all values of the symbols in their boxes, or None."""
    if cache is None:
        cache = {}
    k = e.get_id()
    if k in cache:
        return cache[k]
    r = _ival(e, env, cache)
    cache[k] = r
    return r


def _ival(e, env, cache):
    c = _num(e)
    if c is not None:
        return (c, c)
    if not z3.is_app(e):
        return None
    kind = e.decl().kind()
    if kind == z3.Z3_OP_UNINTERPRETED and e.num_args() == 0:
        return env.get(e.decl().name())
    ch = e.children()
    if kind == z3.Z3_OP_TO_REAL:
        return ival(ch[0], env, cache)
    if kind == z3.Z3_OP_ADD:
        lo = hi = F(0)
        for a in ch:
            v = ival(a, env, cache)
            if v is None:
                return None
            lo += v[0]
            hi += v[1]
        return (lo, hi)
    if kind == z3.Z3_OP_SUB:
        v = ival(ch[0], env, cache)
        if v is None:
            return None
        lo, hi = v
        for a in ch[1:]:
            w = ival(a, env, cache)
            if w is None:
                return None
            lo, hi = lo - w[1], hi - w[0]
        return (lo, hi)
    if kind == z3.Z3_OP_UMINUS:
        v = ival(ch[0], env, cache)
        return None if v is None else (-v[1], -v[0])
    if kind == z3.Z3_OP_MUL:
        # squares of identical factors are non-negative
        acc = (F(1), F(1))
        i = 0
        while i < len(ch):
            a = ch[i]
            v = ival(a, env, cache)
            if v is None:
                return None
            if i + 1 < len(ch) and z3.eq(a, ch[i + 1]):
                lo, hi = v
                sq = (F(0) if lo <= 0 <= hi else min(lo * lo, hi * hi), max(lo * lo, hi * hi))
                acc = _mul(acc, sq)
                i += 2
                continue
            acc = _mul(acc, v)
            i += 1
        return acc
    if kind == z3.Z3_OP_DIV:
        a, b = ival(ch[0], env, cache), ival(ch[1], env, cache)
        if a is None or b is None or b[0] <= 0 <= b[1]:
            return None
        return _mul(a, (1 / b[1], 1 / b[0]))
    if kind == z3.Z3_OP_POWER:
        a = ival(ch[0], env, cache)
        n = _num(ch[1])
        if a is None or n is None or n.denominator != 1 or n < 0:
            return None
        n = int(n)
        if n == 0:
            return (F(1), F(1))
        lo, hi = a
        if n % 2 == 0:
            m = F(0) if lo <= 0 <= hi else min(abs(lo), abs(hi)) ** n
            return (m, max(abs(lo), abs(hi)) ** n)
        return (lo ** n, hi ** n)
    if kind == z3.Z3_OP_ITE:
        t = _decide(ch[0], env, cache)
        if t is True:
            return ival(ch[1], env, cache)
        if t is False:
            return ival(ch[2], env, cache)
        a, b = ival(ch[1], env, cache), ival(ch[2], env, cache)
        if a is None or b is None:
            return None
        return (min(a[0], b[0]), max(a[1], b[1]))
    return None


def decide(c, env, cache=None, expand=True):
    """True / False if the boolean term c has that value on the whole box, else None.
    A second attempt is made on the sum-of-monomials normal form, whose enclosure is much tighter
    for small boxes around a nominal point (constant terms are collected exactly)."""
    r = _decide(c, env, {} if cache is None else cache)
    if r is None and expand:
        try:
            c2 = z3.simplify(c, som=True)
        except z3.Z3Exception:
            return None
        if not z3.eq(c2, c):
            r = _decide(c2, env, {})
    return r


def _decide(c, env, cache=None):
    if cache is None:
        cache = {}
    if z3.is_true(c):
        return True
    if z3.is_false(c):
        return False
    if not z3.is_app(c):
        return None
    kind = c.decl().kind()
    ch = c.children()
    if kind == z3.Z3_OP_NOT:
        r = _decide(ch[0], env, cache)
        return None if r is None else (not r)
    if kind == z3.Z3_OP_AND:
        rs = [_decide(x, env, cache) for x in ch]
        if any(r is False for r in rs):
            return False
        if all(r is True for r in rs):
            return True
        return None
    if kind == z3.Z3_OP_OR:
        rs = [_decide(x, env, cache) for x in ch]
        if any(r is True for r in rs):
            return True
        if all(r is False for r in rs):
            return False
        return None
    if kind in (z3.Z3_OP_LE, z3.Z3_OP_LT, z3.Z3_OP_GE, z3.Z3_OP_GT) and len(ch) == 2:
        a, b = ival(ch[0], env, cache), ival(ch[1], env, cache)
        if a is None or b is None:
            return None
        if kind in (z3.Z3_OP_GE, z3.Z3_OP_GT):
            a, b = b, a
            kind = z3.Z3_OP_LE if kind == z3.Z3_OP_GE else z3.Z3_OP_LT
        # now a (<= | <) b
        if kind == z3.Z3_OP_LE:
            if a[1] <= b[0]:
                return True
            if a[0] > b[1]:
                return False
        else:
            if a[1] < b[0]:
                return True
            if a[0] >= b[1]:
                return False
        return None
    return None


# ---------------------------------------------------------------------------------------------
# Branch-and-bound prover for inequalities over a box (dReal-style; outward-rounded floats).
# Used to DISCHARGE claims of the form  lhs (<|<=|>|>=) rhs  (and conjunctions of them) that hold
# with a margin on the whole box but that z3's nlsat does not decide in time.  It never produces
# counterexamples: anything it cannot prove goes to the SMT solver as before.

_NEG_INF, _POS_INF = float("-inf"), float("inf")
_dn = lambda x: math.nextafter(x, _NEG_INF)  # noqa: E731
_up = lambda x: math.nextafter(x, _POS_INF)  # noqa: E731


class _Prog:
    """Straight-line interval program compiled from a z3 term (DAG-aware)."""

    def __init__(self, names, sqrt_args):
        self.names = list(names)              # primary (box) variables, in order
        self.index = {n: i for i, n in enumerate(self.names)}
        self.sqrt_args = sqrt_args            # auxiliary name -> z3 term of its square
        self.code = []                        # (op, payload)
        self.memo = {}

    def add(self, op, payload):
        self.code.append((op, payload))
        return len(self.code) - 1

    def compile(self, e):
        k = e.get_id()
        if k in self.memo:
            return self.memo[k]
        r = self._compile(e)
        self.memo[k] = r
        return r

    def _compile(self, e):
        c = _num(e)
        if c is not None:
            f = float(c)
            if F(f) == c:
                return self.add("c", (f, f))
            return self.add("c", (_dn(f), _up(f)))
        if not z3.is_app(e):
            raise ValueError("term")
        kind = e.decl().kind()
        if kind == z3.Z3_OP_UNINTERPRETED and e.num_args() == 0:
            n = e.decl().name()
            if n in self.index:
                return self.add("v", self.index[n])
            if n in self.sqrt_args:
                a = self.compile(self.sqrt_args[n])
                return self.add("sqrt", a)
            raise ValueError(f"unbounded symbol {n}")
        if kind == z3.Z3_OP_ITE:
            c, a, b = e.children()
            ia, ib = self.compile(a), self.compile(b)
            at = _atoms(c)
            if at is not None and len(at) == 1:
                lhs, rhs, strict = at[0]
                d = self.compile(rhs - lhs)          # condition  <=>  d > 0 (strict) / d >= 0
                return self.add("ite", (d, strict, ia, ib))
            return self.add("hull", [ia, ib])
        ch = [self.compile(x) for x in e.children()]
        if kind == z3.Z3_OP_TO_REAL:
            return ch[0]
        if kind == z3.Z3_OP_ADD:
            return self.add("+", ch)
        if kind == z3.Z3_OP_SUB:
            return self.add("-", ch)
        if kind == z3.Z3_OP_UMINUS:
            return self.add("neg", ch[0])
        if kind == z3.Z3_OP_MUL:
            # group identical factors into powers
            groups = []
            for x in ch:
                if groups and groups[-1][0] == x:
                    groups[-1][1] += 1
                else:
                    groups.append([x, 1])
            return self.add("*", [(x, p) for x, p in groups])
        if kind == z3.Z3_OP_DIV:
            return self.add("/", ch)
        if kind == z3.Z3_OP_POWER:
            n = _num(e.arg(1))
            if n is None or n.denominator != 1 or n < 0:
                raise ValueError("power")
            return self.add("*", [(ch[0], int(n))])
        raise ValueError(f"op {e.decl().name()}")

    def run(self, box):
        """box: list of (lo, hi) floats for self.names.  Returns the list of intervals per node; a node
        whose value cannot be enclosed (division by an interval containing zero, or an operand that could
        not be enclosed) is None."""
        val = [None] * len(self.code)
        for i, (op, p) in enumerate(self.code):
            try:
                val[i] = self._step(op, p, val, box)
            except TypeError:           # an operand is None
                val[i] = None
        return val

    @staticmethod
    def _step(op, p, val, box):
        if op == "c":
            return p
        if op == "v":
            return box[p]
        if op == "+":
            lo = hi = 0.0
            for j in p:
                lo += val[j][0]
                hi += val[j][1]
            return (_dn(lo) if len(p) > 1 else lo, _up(hi) if len(p) > 1 else hi)
        if op == "-":
            lo, hi = val[p[0]]
            for j in p[1:]:
                lo -= val[j][1]
                hi -= val[j][0]
            return (_dn(lo), _up(hi))
        if op == "neg":
            return (-val[p][1], -val[p][0])
        if op == "*":
            lo, hi = 1.0, 1.0
            for j, pw in p:
                a, b = val[j]
                if pw != 1:
                    if pw % 2 == 0:
                        m = 0.0 if a <= 0.0 <= b else min(abs(a), abs(b)) ** pw
                        a, b = _dn(m) if m > 0 else 0.0, _up(max(abs(a), abs(b)) ** pw)
                    else:
                        a, b = _dn(a ** pw), _up(b ** pw)
                c1, c2, c3, c4 = lo * a, lo * b, hi * a, hi * b
                lo, hi = _dn(min(c1, c2, c3, c4)), _up(max(c1, c2, c3, c4))
            return (lo, hi)
        if op == "/":
            a, b = val[p[0]], val[p[1]]
            if b[0] <= 0.0 <= b[1]:
                return None
            c1, c2, c3, c4 = a[0] / b[0], a[0] / b[1], a[1] / b[0], a[1] / b[1]
            return (_dn(min(c1, c2, c3, c4)), _up(max(c1, c2, c3, c4)))
        if op == "sqrt":
            a, b = val[p]
            a, b = max(a, 0.0), max(b, 0.0)
            return (_dn(math.sqrt(a)) if a > 0 else 0.0, _up(math.sqrt(b)))
        if op == "ite":
            d, strict, ia, ib = p
            lo, hi = val[d]
            if lo > 0.0 or (not strict and lo >= 0.0):
                return val[ia]
            if hi < 0.0 or (strict and hi <= 0.0):
                return val[ib]
            return (min(val[ia][0], val[ib][0]), max(val[ia][1], val[ib][1]))
        if op == "hull":
            return (min(val[p[0]][0], val[p[1]][0]), max(val[p[0]][1], val[p[1]][1]))
        raise ValueError(op)


def _atoms(c):
    """Conjunction of comparison atoms -> list of (lhs, rhs, strict) meaning lhs < rhs / lhs <= rhs;
    None if c is not of that shape."""
    if not z3.is_app(c):
        return None
    kind = c.decl().kind()
    ch = c.children()
    if kind == z3.Z3_OP_AND:
        out = []
        for x in ch:
            a = _atoms(x)
            if a is None:
                return None
            out += a
        return out
    if kind == z3.Z3_OP_NOT and z3.is_app(ch[0]):
        k2 = ch[0].decl().kind()
        g = ch[0].children()
        if k2 == z3.Z3_OP_LE:      # not (a <= b)  ==  b < a
            return [(g[1], g[0], True)]
        if k2 == z3.Z3_OP_LT:
            return [(g[1], g[0], False)]
        if k2 == z3.Z3_OP_GE:      # not (a >= b)  ==  a < b
            return [(g[0], g[1], True)]
        if k2 == z3.Z3_OP_GT:
            return [(g[0], g[1], False)]
        return None
    if kind == z3.Z3_OP_LT:
        return [(ch[0], ch[1], True)]
    if kind == z3.Z3_OP_LE:
        return [(ch[0], ch[1], False)]
    if kind == z3.Z3_OP_GT:
        return [(ch[1], ch[0], True)]
    if kind == z3.Z3_OP_GE:
        return [(ch[1], ch[0], False)]
    return None


BB_DEBUG = []


def prove_bb(claim, box, sqrt_args=None, max_boxes=20000, diff=None):
    """True if the claim (a conjunction of inequalities) holds on the whole box `box`
    ({name: (lo, hi) fractions}); None if not proved (no statement about falsity).

    diff(term, name) -> z3 term of the partial derivative (optional): enables the mean-value form
    f(x) in f(c) + sum_i df/dx_i(box) * (x_i - c_i), which converges quadratically."""
    atoms = _atoms(claim)
    if not atoms:
        return None
    sqrt_args = sqrt_args or {}
    names = sorted(n for n in box if n not in sqrt_args)
    stats = 0
    for lhs, rhs, strict in atoms:
        prog = _Prog(names, sqrt_args)
        try:
            f = z3.simplify(rhs - lhs, som=True)
            root = prog.compile(f)      # want root > 0 (>= 0)
            try:
                root_raw = prog.compile(z3.simplify(rhs - lhs))   # un-expanded form: other denominators
            except (ValueError, NotImplementedError, z3.Z3Exception):
                root_raw = None
            used = sorted({p for op, p in prog.code if op == "v"})
            grads = None
            if diff is not None:
                grads = [(j, prog.compile(diff(f, names[j]))) for j in used]
        except (ValueError, NotImplementedError, z3.Z3Exception):
            return None
        start = []
        for n in names:
            lo, hi = box[n]
            start.append((_dn(float(lo)) if F(float(lo)) != lo else float(lo),
                          _up(float(hi)) if F(float(hi)) != hi else float(hi)))
        stack = [start]
        while stack:
            b = stack.pop()
            stats += 1
            if stats > max_boxes:
                BB_DEBUG.append(("max_boxes", b))
                return None
            val = prog.run(b)
            if val[root] is None and root_raw is not None and val[root_raw] is not None:
                val[root] = val[root_raw]
            elif val[root] is not None and root_raw is not None and val[root_raw] is not None:
                val[root] = (max(val[root][0], val[root_raw][0]), min(val[root][1], val[root_raw][1]))
            if val[root] is None:
                val = None
            if val is not None:
                lo, hi = val[root]
                if lo > 0.0 or (not strict and lo >= 0.0):
                    continue
                if hi < 0.0:
                    BB_DEBUG.append(("negative-box", b, lo, hi))
                    return None          # violated on a whole sub-box: leave it to the solver
                impact = None
                if grads is not None:
                    mid = [(0.5 * (x + y),) * 2 for x, y in b]
                    vc = prog.run(mid)
                    if vc[root] is None and root_raw is not None:
                        vc[root] = vc[root_raw]
                    if vc[root] is not None and all(val[gi] is not None for _, gi in grads):
                        low = vc[root][0]
                        impact = {}
                        for j, gi in grads:
                            g = val[gi]
                            r = _up(0.5 * (b[j][1] - b[j][0]))
                            t = _up(max(abs(g[0]), abs(g[1])) * r)
                            impact[j] = t
                            low = _dn(low - t)
                        if low > 0.0 or (not strict and low >= 0.0):
                            continue
            else:
                impact = None
            # split the variable with the largest contribution to the enclosure width (or the widest)
            if not used:
                return None
            if impact:
                k = max(used, key=lambda j: impact.get(j, 0.0))
            else:
                k = max(used, key=lambda j: b[j][1] - b[j][0])
            w = b[k][1] - b[k][0]
            if w < 1e-9:
                BB_DEBUG.append(("tiny", b, val[root] if val else None))
                return None
            mid = 0.5 * (b[k][0] + b[k][1])
            b1, b2 = list(b), list(b)
            b1[k] = (b[k][0], mid)
            b2[k] = (mid, b[k][1])
            stack.append(b1)
            stack.append(b2)
    return True
