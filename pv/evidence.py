"""Evidence writer (schema: /root/.vp/EVIDENCE.schema.json, level model_checking)."""
from __future__ import annotations

import json
import os

VERIF = os.path.dirname(os.path.dirname(os.path.abspath(__file__)))


def write_evidence(rep, mod, wall, code):
    meta = getattr(mod, "META", {})
    cov = {
        "states": max(rep.paths, 0),
        # transitions of the exploration = solver-decided steps along the explored paths:
        # branch decisions (forks, integer case splits) + obligation queries
        "transitions": rep.decisions + rep.obligations,
        "branch_decisions": rep.decisions,
        "traces_validated_against_impl": rep.validated + len(rep.violations) + len(rep.known),
        "samples": rep.samples[:12] or [{"note": "no sample recorded"}],
        "obligations": rep.obligations,
        "discharged": rep.discharged,
        "inconclusive": len(rep.inconclusive),
        "inconclusive_names": rep.inconclusive[:40],
        "obligation_classes": {k: {"n": v[0], "discharged": v[1], "solver_s": round(v[2], 3)}
                               for k, v in sorted(rep.ob_classes.items())},
        "reachability_witnesses": rep.reach_ok,
        "paths_abandoned": rep.abandoned,
        "unexplored_prefixes": rep.unexplored,
        "undecided_branches": sorted(set(rep.undecided_branches))[:40],
        "undecided_branch_count": len(rep.undecided_branches),
        "exhaustive": bool(rep.unexplored == 0 and rep.abandoned == 0 and not rep.inconclusive
                           and not rep.undecided_branches),
        "explanation": meta.get("explanation", ""),
        "technique": "symbolic execution of the real porepy code on z3 terms; every verdict "
                     "is an SMT query (z3 %s, cvc5 fallback on unknown)" % _z3v(),
        "functions_encoded": rep.functions,
        "bounds": rep.bounds,
        "outside_claim": rep.outside,
        "stubs": rep.stubs,
        "axioms": rep.axioms,
        "solver_time_s": round(rep.solver_time, 3),
        "solver_calls": rep.solver_calls,
        "cvc5_fallback_queries": rep.cvc5_used,
        "known_findings_matched": rep.known,
        "violations": rep.violations[:20],
        "exit_code": code,
    }
    cov.update(rep.extra)
    if any(k in rep.extra for k in ("discharged_by_interval_enclosure", "discharged_by_interval_branch_and_bound",
                                    "branches_decided_by_intervals")):
        cov["technique"] += ("; inequalities that hold with a margin on the whole box of the symbols are discharged (and "
                             "branch sides refuted) by sound interval enclosure / interval branch-and-bound with "
                             "outward rounding before z3 is asked - counts in discharged_by_interval_* and "
                             "branches_decided_by_intervals; equalities, everything the intervals do not settle and all "
                             "counterexamples come from z3")
    ev = {
        "property_id": rep.pid,
        "tier": rep.tier,
        "seed": int(rep.seed),
        "level": "model_checking",
        "coverage": cov,
        "assumptions": rep.assumptions,
        "wall_s": round(wall, 3),
        "violations": len(rep.violations),
    }
    os.makedirs(os.path.join(VERIF, "evidence"), exist_ok=True)
    p = os.path.join(VERIF, "evidence", f"{rep.pid}.json")
    with open(p + ".tmp", "w") as f:
        json.dump(ev, f, indent=1, default=str)
    os.replace(p + ".tmp", p)


def _z3v():
    try:
        import z3

        return z3.get_version_string()
    except Exception:  # noqa: BLE001
        return "?"
