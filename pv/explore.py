"""Path exploration by re-execution (DFS over decision prefixes) + obligations.

Every verdict comes from a solver query:
  * branch feasibility      -> which paths exist
  * ctx.check(name, claim)  -> path_condition /\\ assumptions /\\ not claim   (unsat = discharged)
  * ctx.reach(name)         -> path_condition /\\ assumptions              (must be sat: vacuity twin)
"""
from __future__ import annotations

import hashlib
import json
import os
import subprocess
import sys
import time
import traceback

import numpy as np
import z3

from . import interval, sym
from .sym import Abandon, Infeasible, PathAbort, SBool, SInt, SReal

VERIF = os.path.dirname(os.path.dirname(os.path.abspath(__file__)))


class HarnessError(Exception):
    """The machinery (not porepy) is wrong: exit code 3, never a VIOLATION."""


class Session:
    """Global flag: proxies change behaviour only while a symbolic session is active."""

    active = False


class Report:
    def __init__(self, pid: str, tier: str, seed: int):
        self.pid, self.tier, self.seed = pid, tier, seed
        self.t0 = time.time()
        self.paths = 0
        self.decisions = 0
        self.solver_calls = 0
        self.solver_time = 0.0
        self.obligations = 0
        self.discharged = 0
        self.inconclusive = []  # names
        self.violations = []  # dicts
        self.known = {}  # kf id -> text
        self.unconfirmed = []  # sat but not reproduced -> harness error
        self.reach_ok = 0
        self.reach_fail = []
        self.validated = 0
        self.validation_fail = []
        self.abandoned = 0
        self.unexplored = 0
        self.undecided_branches = []
        self.samples = []
        self.ob_classes = {}  # name class -> [n, discharged, time]
        self.bounds = {}
        self.outside = []
        self.stubs = []
        self.axioms = []
        self.assumptions = []
        self.functions = {}
        self.targets = []
        self.cvc5_used = 0
        self.extra = {}
        self.harness_errors = []

    def merge(self, d: dict):
        """Merge a shard result (as_dict output of another Report)."""
        for k in ("paths", "decisions", "solver_calls", "solver_time", "obligations", "discharged",
                  "reach_ok", "validated", "abandoned", "unexplored", "cvc5_used"):
            setattr(self, k, getattr(self, k) + d[k])
        for k in ("inconclusive", "violations", "unconfirmed", "reach_fail", "validation_fail",
                  "undecided_branches", "harness_errors"):
            getattr(self, k).extend(d[k])
        self.known.update(d["known"])
        for s in d["samples"]:
            if len(self.samples) < 12:
                self.samples.append(s)
        for k, v in d["ob_classes"].items():
            c = self.ob_classes.setdefault(k, [0, 0, 0.0])
            c[0] += v[0]
            c[1] += v[1]
            c[2] += v[2]
        self.functions.update(d["functions"])
        for k in ("stubs", "axioms", "assumptions", "outside"):
            for s in d[k]:
                if s not in getattr(self, k):
                    getattr(self, k).append(s)
        for k, v in d["bounds"].items():
            self.bounds.setdefault(k, v)
        for k, v in d["extra"].items():
            if isinstance(v, (int, float)) and isinstance(self.extra.get(k), (int, float)):
                self.extra[k] += v
            else:
                self.extra.setdefault(k, v)

    def as_dict(self):
        return {k: getattr(self, k) for k in (
            "paths", "decisions", "solver_calls", "solver_time", "obligations", "discharged",
            "inconclusive", "violations", "known", "unconfirmed", "reach_ok", "reach_fail",
            "validated", "validation_fail", "abandoned", "unexplored", "undecided_branches",
            "samples", "ob_classes", "bounds", "outside", "stubs", "axioms", "assumptions",
            "functions", "cvc5_used", "extra", "harness_errors")}


def _ob_class(name: str) -> str:
    return name.split("[")[0]


class Config:
    def __init__(self, tier="quick"):
        self.tier = tier
        self.query_timeout_ms = 20000 if tier == "quick" else 60000
        self.branch_timeout_ms = 2000
        self.max_paths = 20000 if tier == "quick" else 400000
        self.validate_every = 1
        self.interval_first = False   # try to discharge inequalities by interval enclosure first
        self.simplify_div = False     # t/t -> 1, 0/t -> 0 when t != 0 is implied (geometry harnesses)
        self.fresh_branches = False   # decide branches with fresh solvers instead of the incremental one
        self.bb_max_boxes = 20000
        self.slice_first = False      # try obligations on the cone of influence of the claim first
        self.slice_timeout_ms = 10000
        self.use_cvc5 = True
        self.incremental_first = True  # linear-ish harnesses; nonlinear ones switch it off
        self.sample_cex = False  # harnesses with uninterpreted elementary functions switch it on


class Explorer:
    def __init__(self, report: Report, cfg: Config, module=None, known_findings=None):
        self.report = report
        self.cfg = cfg
        self.module = module  # property module providing replay_case / concrete_run
        self.known_findings = known_findings or {}

    def run(self, harness, label="", max_paths=None, args=()):
        """Explore all feasible paths of harness(ctx, *args).  Returns list of outputs."""
        rep = self.report
        stack = [[]]
        outs = []
        n = 0
        budget = max_paths or self.cfg.max_paths
        while stack:
            if n >= budget or len(rep.violations) >= 10:
                rep.unexplored += len(stack)
                break
            prefix = stack.pop()
            ctx = PathCtx(self, prefix, label, n)
            sym.set_cur(ctx)
            sym.SIMPLIFY_DIV = bool(self.cfg.simplify_div)
            Session.active = True
            try:
                out = harness(ctx, *args)
                outs.append(out)
                ctx.completed = True
            except Infeasible:
                pass
            except Abandon as e:
                rep.abandoned += 1
                rep.inconclusive.append(f"{label}:path{n}:abandoned:{e}")
            except PathAbort:
                raise
            except Exception as e:  # noqa: BLE001
                rep.harness_errors.append(
                    f"{label}:path{n}: {type(e).__name__}: {e}\n{traceback.format_exc()[-1800:]}")
            finally:
                Session.active = False
                sym.set_cur(None)
            n += 1
            rep.paths += 1
            rep.decisions += len(ctx.decisions)
            for i in range(len(prefix), len(ctx.decisions)):
                d = ctx.decisions[i]
                if d["alt"]:
                    alt = [dict(x, alt=False) for x in ctx.decisions[:i]]
                    alt.append({"take": not d["take"], "val": d.get("val"), "alt": False})
                    stack.append(alt)
        return outs


class KF:
    """A known-finding matcher: id must be listed in known_findings.json as 'known'."""

    def __init__(self, kid, pred):
        self.kid, self.pred = kid, pred


class PathCtx:
    def __init__(self, ex: Explorer, prefix, label, idx):
        self.ex = ex
        self.rep = ex.report
        self.prefix = prefix
        self.label = label
        self.idx = idx
        self.decisions = []
        self.constraints = []  # all z3 constraints of this path (assumptions, defs, decisions)
        self.inc = z3.Solver()
        self.inc.set("timeout", ex.cfg.branch_timeout_ms)
        self._sqrt = {}
        self._nsqrt = 0
        self._nfresh = 0
        self.completed = False
        self.syms = {}
        self.notes = []
        self.kf_hit = False  # a known finding matched on this path
        self.dyadic_vars = None  # set by a harness: prefer float-exact (dyadic) models
        self.dyadic_denom = 1 << 16
        self.box = {}            # symbol name -> (lo, hi) exact fractions (interval pruning)
        self.defs = {}           # auxiliary symbol -> its defining constraints (slicing)
        self.sqrt_args = {}      # sqrt symbol -> the term it is the square root of

    def _box(self, name, lo, hi):
        if lo is None or hi is None:
            return
        try:
            a, b = z3.simplify(sym.lift(lo)), z3.simplify(sym.lift(hi))
            self.box[name] = (a.as_fraction(), b.as_fraction())
        except Exception:  # noqa: BLE001  (symbolic bounds: no box)
            pass

    # ------------------------------------------------------------ symbols
    def real(self, name, lo=None, hi=None) -> SReal:
        v = z3.Real(name)
        self.syms[name] = v
        if lo is not None:
            self._add(v >= sym.lift(lo))
        if hi is not None:
            self._add(v <= sym.lift(hi))
        self._box(name, lo, hi)
        return SReal(v)

    def reals(self, name, shape, lo=None, hi=None):
        from .arr import sa

        shape = (int(shape),) if isinstance(shape, (int, np.integer)) else tuple(int(s) for s in shape)
        a = np.empty(shape, dtype=object)
        for idx in np.ndindex(*shape):
            a[idx] = self.real(f"{name}_{'_'.join(map(str, idx))}", lo, hi)
        return sa(a)

    def int(self, name, lo=None, hi=None) -> SInt:
        v = z3.Int(name)
        self.syms[name] = v
        if lo is not None:
            self._add(v >= int(lo))
        if hi is not None:
            self._add(v <= int(hi))
        self._box(name, lo, hi)
        return SInt(v)

    def boolean(self, name) -> SBool:
        v = z3.Bool(name)
        self.syms[name] = v
        return SBool(v)

    def fresh_real(self, stem="f") -> SReal:
        self._nfresh += 1
        return self.real(f"{stem}!{self._nfresh}")

    def sqrt_var(self, arg):
        k = arg.get_id()
        if k in self._sqrt:
            return self._sqrt[k][0]
        self._nsqrt += 1
        r = z3.Real(f"sqrt!{self._nsqrt}")
        self._sqrt[k] = (r, arg)
        d = z3.And(r >= 0, r * r == arg)
        self._add(d)
        self.defs[f"sqrt!{self._nsqrt}"] = [d]
        self.sqrt_args[f"sqrt!{self._nsqrt}"] = arg
        iv = interval.ival(arg, self.box)
        if iv is not None:
            lo, hi = interval.sqrt_bounds(*iv)
            self.box[f"sqrt!{self._nsqrt}"] = (lo, hi)
            # implied by r*r == arg on the box of the symbols; stated to spare the solver the derivation
            bd = z3.And(r >= sym.rv(lo), r <= sym.rv(hi))
            self._add(bd)
            self.defs[f"sqrt!{self._nsqrt}"].append(bd)
        return r

    # ------------------------------------------------------------ constraints
    def sign_of(self, t):
        """+1 if the path implies t >= 0, -1 if it implies t <= 0, else 0 (no fork)."""
        c = z3.simplify(t)
        if z3.is_rational_value(c) or z3.is_int_value(c):
            return 1 if c.as_fraction() >= 0 else -1
        iv = interval.ival(t, self.box)
        if iv is not None:
            if iv[0] >= 0:
                return 1
            if iv[1] <= 0:
                return -1
        if _nonlinear(t):
            # nonlinear: interval branch-and-bound only (z3 may not return within its timeout)
            df = lambda u, n: _zdiff(u, z3.Real(n), self)  # noqa: E731
            if interval.prove_bb(t >= 0, self.box, dict(self.sqrt_args), 3000, diff=df) is True:
                return 1
            if interval.prove_bb(t <= 0, self.box, dict(self.sqrt_args), 3000, diff=df) is True:
                return -1
            return 0
        r, _ = self._inc_check(t < 0)
        if r == "unsat":
            return 1
        r, _ = self._inc_check(t > 0)
        if r == "unsat":
            return -1
        return 0

    def sign_strict(self, t):
        """+1 if the path implies t > 0, -1 if it implies t < 0, else 0 (no fork)."""
        iv = interval.ival(t, self.box)
        if iv is not None:
            if iv[0] > 0:
                return 1
            if iv[1] < 0:
                return -1
        if _nonlinear(t):
            df = lambda u, n: _zdiff(u, z3.Real(n), self)  # noqa: E731
            if interval.prove_bb(t > 0, self.box, dict(self.sqrt_args), 3000, diff=df) is True:
                return 1
            if interval.prove_bb(t < 0, self.box, dict(self.sqrt_args), 3000, diff=df) is True:
                return -1
            return 0
        r, _ = self._inc_check(t <= 0)
        if r == "unsat":
            return 1
        r, _ = self._inc_check(t >= 0)
        if r == "unsat":
            return -1
        return 0

    def _add(self, c):
        self.constraints.append(c)
        self.inc.add(c)

    def assume(self, c):
        if isinstance(c, SBool):
            c = c.e
        elif isinstance(c, (bool, np.bool_)):
            c = z3.BoolVal(bool(c))
        self._add(c)

    def _timed(self, f):
        t = time.time()
        try:
            return f()
        finally:
            self.rep.solver_calls += 1
            self.rep.solver_time += time.time() - t

    def _inc_check(self, extra=None):
        if self.ex.cfg.fresh_branches:
            # a long-lived incremental solver can get stuck on nonlinear paths (queries that a fresh
            # solver answers at once); opt-in per property
            return self._fresh_check([] if extra is None else [extra], self.ex.cfg.branch_timeout_ms)

        def f():
            if extra is not None:
                self.inc.push()
                self.inc.add(extra)
            r = self.inc.check()
            m = self.inc.model() if r == z3.sat else None
            if extra is not None:
                self.inc.pop()
            return str(r), m

        return self._timed(f)

    def _fresh_check(self, extra, timeout_ms):
        """Non-incremental query (lets z3 pick nlsat etc.).  Returns (status, model)."""

        def f():
            s = z3.Solver()
            s.set("timeout", int(timeout_ms))
            for c in self.constraints:
                s.add(c)
            for c in extra:
                s.add(c)
            r = s.check()
            if r == z3.sat:
                return "sat", s.model(), s
            return str(r), None, s

        st, m, s = self._timed(f)
        if st == "unknown" and self.ex.cfg.use_cvc5:
            from .solvers import cvc5_check

            t = time.time()
            st2 = cvc5_check(s.to_smt2(), timeout_ms)
            self.rep.solver_calls += 1
            self.rep.solver_time += time.time() - t
            self.rep.cvc5_used += 1
            if st2 == "unsat":
                return "unsat", None
            # a cvc5 'sat' has no z3 model to replay: stays inconclusive
        return st, m

    def dyadic_model(self, vars_=None, extra=(), timeout_ms=2000):
        """A model in which the given real symbols are multiples of 1/denom (exactly
        representable floats, so that the float replay follows the same path)."""
        vars_ = vars_ if vars_ is not None else self.dyadic_vars
        if not vars_:
            return None
        cons = list(extra)
        for i, v in enumerate(vars_):
            if v.sort() == z3.RealSort():
                cons.append(v * self.dyadic_denom == z3.ToReal(z3.Int(f"dy!{i}")))
        st, m = self._fresh_check(cons, timeout_ms)
        return m if st == "sat" else None

    # ------------------------------------------------------------ branching
    def _record(self, cond, take, alt, val=None):
        self.decisions.append({"take": take, "alt": alt, "val": val})
        self._add(cond if take else z3.Not(cond))
        return take

    def branch(self, cond) -> bool:
        i = len(self.decisions)
        if i < len(self.prefix):
            return self._record(cond, self.prefix[i]["take"], False)
        d = interval.decide(cond, self.box)
        if d is not None:
            # the box of the declared symbols alone refutes the other side
            self.rep.extra["branches_decided_by_intervals"] = self.rep.extra.get("branches_decided_by_intervals", 0) + 1
            return self._record(cond, d, False)
        if self.ex.cfg.interval_first:
            # conditions that hold (or fail) with a margin on the whole box: interval branch-and-bound
            df = lambda t, n: _zdiff(t, z3.Real(n), self)  # noqa: E731
            cs = z3.simplify(cond)
            if interval.prove_bb(cs, self.box, dict(self.sqrt_args), 3000, diff=df) is True:
                self.rep.extra["branches_decided_by_intervals"] = self.rep.extra.get("branches_decided_by_intervals", 0) + 1
                return self._record(cond, True, False)
            if interval.prove_bb(z3.simplify(z3.Not(cond)), self.box, dict(self.sqrt_args), 3000, diff=df) is True:
                self.rep.extra["branches_decided_by_intervals"] = self.rep.extra.get("branches_decided_by_intervals", 0) + 1
                return self._record(cond, False, False)
        rt, _ = self._inc_check(cond)
        rf, _ = self._inc_check(z3.Not(cond))
        if rt == "unknown" or rf == "unknown":
            # retry non-incrementally with the same short timeout
            if rt == "unknown":
                rt, _ = self._fresh_check([cond], self.ex.cfg.branch_timeout_ms)
            if rf == "unknown":
                rf, _ = self._fresh_check([z3.Not(cond)], self.ex.cfg.branch_timeout_ms)
        if rt == "unknown" or rf == "unknown":
            # concolic fallback: follow a witness of the path condition (narrows the claim)
            r0, m = self._inc_check()
            if r0 != "sat":
                r0, m = self._fresh_check([], self.ex.cfg.query_timeout_ms)
            if r0 != "sat":
                raise Abandon("undecided branch without witness")
            take = z3.is_true(m.eval(cond, model_completion=True))
            fr = sys._getframe(2)
            self.rep.undecided_branches.append(
                f"{os.path.basename(fr.f_code.co_filename)}:{fr.f_lineno}")
            return self._record(cond, take, False)
        if rt == "sat" and rf == "sat":
            return self._record(cond, True, True)
        if rt == "sat":
            return self._record(cond, True, False)
        if rf == "sat":
            return self._record(cond, False, False)
        raise Infeasible()

    def concretize_int(self, e) -> int:
        """Case split on the value of an integer term (solver-driven)."""
        e = z3.simplify(e)
        if z3.is_int_value(e):
            return e.as_long()
        while True:
            i = len(self.decisions)
            if i < len(self.prefix):
                v = self.prefix[i]["val"]
                if self._record(e == v, self.prefix[i]["take"], False, v):
                    return v
                continue
            r, m = self._inc_check()
            if r != "sat":
                if r == "unsat":
                    raise Infeasible()
                raise Abandon("cannot concretize integer")
            v = m.eval(e, model_completion=True).as_long()
            ro, _ = self._inc_check(e != v)
            self._record(e == v, True, ro != "unsat", v)
            return v

    def _sliced_unsat(self, goal):
        """True if goal is unsatisfiable together with a SUBSET of the path condition: the definitions
        of the auxiliary symbols (square roots) the goal depends on, and every other constraint that
        only mentions symbols already involved.  'unsat' on a subset carries over to the full path
        condition; any other answer is ignored and the full query is made."""
        need = set(_symbols(goal))
        if not need:
            return False
        done = set()
        sel = []
        changed = True
        while changed:
            changed = False
            for n in sorted(need):
                if n in self.defs and n not in done:
                    done.add(n)
                    for c in self.defs[n]:
                        sel.append(c)
                        need |= _symbols(c)
                    changed = True
        def_ids = {c.get_id() for cs in self.defs.values() for c in cs}
        dropped = 0
        for c in self.constraints:
            if c.get_id() in def_ids:
                if not any(c.get_id() == x.get_id() for x in sel):
                    dropped += 1
                continue
            if _symbols(c) <= need:
                sel.append(c)
            else:
                dropped += 1
        if not dropped:
            return False          # nothing dropped: same as the full query

        def f():
            so = z3.Solver()
            so.set("timeout", int(self.ex.cfg.slice_timeout_ms))
            for c in sel:
                so.add(c)
            so.add(goal)
            return str(so.check())

        return self._timed(f) == "unsat"

    # ------------------------------------------------------------ obligations
    def check(self, name, claim, case=None, known=()):
        """Obligation: claim holds for every input on this path.

        case: callable(conc) -> JSON-able dict understood by module.replay_case.
        known: iterable of KF; only those listed as status 'known' are honoured.
        """
        rep = self.rep
        if isinstance(claim, SBool):
            claim = claim.e
        elif isinstance(claim, (bool, np.bool_)):
            claim = z3.BoolVal(bool(claim))
        claim_s = z3.simplify(claim)
        rep.obligations += 1
        cls = rep.ob_classes.setdefault(_ob_class(name), [0, 0, 0.0])
        cls[0] += 1
        t0 = time.time()
        if z3.is_true(claim_s):
            rep.discharged += 1
            cls[1] += 1
            return True
        excl = []
        try:
            if self.ex.cfg.interval_first and interval.decide(claim, self.box) is True:
                # the claim holds on the whole box of the symbols by interval enclosure (sound
                # over-approximation; no solver call needed)
                rep.discharged += 1
                cls[1] += 1
                rep.extra["discharged_by_interval_enclosure"] = rep.extra.get("discharged_by_interval_enclosure", 0) + 1
                return True
            if self.ex.cfg.interval_first and interval.prove_bb(
                    claim_s, self.box, dict(self.sqrt_args), self.ex.cfg.bb_max_boxes,
                    diff=lambda t, n: _zdiff(t, z3.Real(n), self)) is True:
                rep.discharged += 1
                cls[1] += 1
                rep.extra["discharged_by_interval_branch_and_bound"] = rep.extra.get(
                    "discharged_by_interval_branch_and_bound", 0) + 1
                return True
            if self.ex.cfg.slice_first and self._sliced_unsat(z3.Not(claim)):
                rep.discharged += 1
                cls[1] += 1
                rep.extra["discharged_on_sliced_path_condition"] = rep.extra.get(
                    "discharged_on_sliced_path_condition", 0) + 1
                return True
            while True:
                st = "unknown"
                if self.ex.cfg.incremental_first:
                    st, m = self._inc_check(z3.And([z3.Not(claim)] + excl))
                if st == "unknown":
                    st, m = self._fresh_check([z3.Not(claim)] + excl, self.ex.cfg.query_timeout_ms)
                if st == "unsat":
                    rep.discharged += 1
                    cls[1] += 1
                    return True
                if st == "unknown":
                    rep.inconclusive.append(f"{self.label}:path{self.idx}:{name}")
                    return None
                # sat: candidate counterexample -> replay on the real code
                if self.dyadic_vars:
                    m = self.dyadic_model(extra=[z3.Not(claim)] + excl) or m
                matched = None
                for kf in (known or ()):
                    ent = self.ex.known_findings.get(kf.kid)
                    if ent and ent.get("status") == "known" and z3.is_true(
                            m.eval(kf.pred, model_completion=True)):
                        matched = (kf, ent)
                        break
                confirmed, info = self._replay(name, m, case)
                if not confirmed and self.ex.cfg.sample_cex:
                    # the model's interpretation of exp/sin/... need not be the true one:
                    # realise the solver's counterexample at a point where the claim fails
                    # under the true functions (still replayed on the real code below)
                    confirmed, info2 = self._sample_cex(name, claim, excl, case)
                    if confirmed:
                        info = info2
                if not confirmed:
                    # try once more for a model with the candidate excluded? no: a
                    # non-reproducing model is an encoding problem.
                    rep.unconfirmed.append({"obligation": name, "path": self.idx,
                                            "label": self.label, "info": info})
                    return False
                if matched:
                    self.kf_hit = True
                    kf, ent = matched
                    if kf.kid not in rep.known:
                        rep.known[kf.kid] = ent["text"]
                        print(f"KNOWN-FINDING: property={rep.pid} {ent['text']}", flush=True)
                    excl.append(z3.Not(kf.pred))
                    continue
                rep.violations.append({"obligation": name, "path": self.idx,
                                       "label": self.label, "replay": info.get("replay_file"),
                                       "detail": info.get("detail")})
                print(f"VIOLATION property={rep.pid} replay={info.get('replay_file')}", flush=True)
                return False
        finally:
            cls[2] += time.time() - t0

    def check_close(self, name, lhs, rhs, case=None, known=(), tol=1e-9):
        """Equality obligation in two stages (DESIGN 3/1a): exact equality first; if that is
        refutable only because concrete float scalars were rounded by the interpreter, the
        tolerance form |lhs-rhs| <= tol*(1+|rhs|) is decided instead.  Only a violation of
        the tolerance form is a candidate counterexample."""
        le, re = sym.lift(lhs), sym.lift(rhs)
        eq = z3.simplify(le == re)
        if z3.is_true(eq):
            return self.check(name, True, case, known)
        st = "unknown"
        if self.ex.cfg.incremental_first:
            st, _ = self._inc_check(z3.Not(eq))
        if st == "unknown":
            st, _ = self._fresh_check([z3.Not(eq)], self.ex.cfg.query_timeout_ms)
        if st == "unsat":
            return self.check(name, True, case, known)
        d = le - re
        ar = z3.If(re >= 0, re, -re)
        t = sym.rv(tol) * (1 + ar)
        self.rep.extra["tolerance_stage_obligations"] = self.rep.extra.get(
            "tolerance_stage_obligations", 0) + 1
        return self.check(name, z3.And(d <= t, -d <= t), case, known)

    def _sample_cex(self, name, claim, excl, case, tries=400):
        import random

        from .diff import feval, feval_struct

        rnd = random.Random(12345)
        names = list(self.syms)
        grid = [k / 8 for k in range(-32, 33)]
        small = [-2.0, -1.0, -0.5, 0.0, 0.5, 1.0, 2.0, 3.0]
        for _ in range(tries):
            env = {}
            for n in names:
                v = self.syms[n]
                if v.sort() == z3.IntSort():
                    env[n] = rnd.randint(-3, 3)
                elif v.sort() == z3.BoolSort():
                    env[n] = rnd.random() < 0.5
                else:
                    env[n] = rnd.choice(small if "j_" in n else grid)
            try:
                if not all(feval(c, env, self) for c in self.constraints):
                    continue
                if feval(claim, env, self):
                    continue
                if not all(feval(c, env, self) for c in excl):
                    continue
            except (KeyError, ZeroDivisionError, ValueError, OverflowError, NotImplementedError):
                continue
            conc = lambda x: feval_struct(x, env, self)  # noqa: E731
            ok, info = self._replay(name, None, case, conc=conc)
            if ok:
                return ok, info
        return False, {}

    def _replay(self, name, model, case, conc=None):
        if case is None:
            return False, {"detail": "no replay case provided"}
        if conc is None:
            conc = lambda x: sym.concretize(model, x)  # noqa: E731
        Session.active = False
        saved = sym._CTX[0]
        sym.set_cur(None)
        try:
            c = case(conc)
            violated, detail = self.ex.module.replay_case(c)
        except Exception as e:  # noqa: BLE001
            return False, {"detail": f"replay raised {type(e).__name__}: {e}",
                           "trace": traceback.format_exc()[-1500:]}
        finally:
            Session.active = True
            sym.set_cur(saved)
        if not violated:
            return False, {"detail": f"counterexample did not reproduce: {detail}", "case": c}
        # persist + confirm in a clean subprocess (real numpy/scipy, numba JIT enabled)
        os.makedirs(os.path.join(VERIF, "replays"), exist_ok=True)
        blob = {"property": self.rep.pid, "module": self.ex.module.__name__, "obligation": name,
                "case": c, "detail": detail}
        h = hashlib.sha1(json.dumps(blob, sort_keys=True, default=str).encode()).hexdigest()[:12]
        path = os.path.join(VERIF, "replays", f"{self.rep.pid}_{h}.json")
        with open(path, "w") as f:
            json.dump(blob, f, indent=1, default=str)
        if not self.rep.extra.get("clean_replays_done"):
            # first confirmed counterexample of the run: also confirm in a clean interpreter
            ok, out = run_replay_file(path)
            if not ok:
                return False, {"detail": f"clean-process replay did not reproduce: {out[-800:]}",
                               "case": c}
            self.rep.extra["clean_replays_done"] = 1
        return True, {"replay_file": path, "detail": detail}

    def reach(self, name="end", required=True):
        """Vacuity twin: the path condition with all assumptions must be satisfiable."""
        st, m = self._inc_check()
        if st == "unknown":
            st, m = self._fresh_check([], self.ex.cfg.query_timeout_ms)
        if st == "sat":
            if required:
                self.rep.reach_ok += 1
            return m
        if not required:
            return None
        if st == "unsat":
            self.rep.reach_fail.append(f"{self.label}:path{self.idx}:{name}")
        else:
            self.rep.inconclusive.append(f"{self.label}:path{self.idx}:reach:{name}")
        return None

    def model_env(self, model):
        """{constant name: float} for every constant of the model / declared symbol."""
        env = {}
        for d in model.decls():
            if d.arity() == 0:
                try:
                    env[d.name()] = float(sym.model_fraction(model, d()))
                except Exception:  # noqa: BLE001
                    pass
        for n, v in self.syms.items():
            if n not in env:
                env[n] = float(sym.model_fraction(model, v))
        return env

    def validate(self, name, sym_out, case, model=None, rtol=1e-7, atol=1e-9, exact=False,
                 true_functions=False):
        """Witness replay: run the real code on a witness of this path and compare with the
        symbolic outputs evaluated under the same witness (validates the encoding)."""
        if model is None:
            model = self.reach(name)
            if model is None:
                return
        conc = lambda x: sym.concretize(model, x, exact=exact)  # noqa: E731
        Session.active = False
        saved = sym._CTX[0]
        sym.set_cur(None)
        try:
            c = case(conc)
            if true_functions:
                from .diff import feval_struct

                expected = feval_struct(sym_out, self.model_env(model), self)
            else:
                expected = conc(sym_out)
            got = self.ex.module.concrete_run(c)
            ok, why = _compare(expected, got, rtol, atol)
        except Exception as e:  # noqa: BLE001
            ok, why = False, f"{type(e).__name__}: {e}\n{traceback.format_exc()[-1200:]}"
            c = None
        finally:
            Session.active = True
            sym.set_cur(saved)
        if ok:
            self.rep.validated += 1
        else:
            self.rep.validation_fail.append(
                {"where": f"{self.label}:path{self.idx}:{name}", "why": why, "case": c})
        return ok

    def validate_replay(self, name, case, model=None):
        """Witness replay through the property oracle of the real-code side: on a path whose
        obligations were all discharged the float oracle must agree (no violation)."""
        if self.rep.violations or self.rep.unconfirmed:
            return None  # a counterexample was already reported on this run
        if model is None:
            model = self.reach(name)
            if model is None:
                return None
        conc = lambda x: sym.concretize(model, x)  # noqa: E731
        Session.active = False
        saved = sym._CTX[0]
        sym.set_cur(None)
        try:
            c = case(conc)
            violated, detail = self.ex.module.replay_case(c)
            ok, why = (not violated), detail
        except Exception as e:  # noqa: BLE001
            ok, why, c = False, f"{type(e).__name__}: {e}\n{traceback.format_exc()[-1200:]}", None
        finally:
            Session.active = True
            sym.set_cur(saved)
        if ok:
            self.rep.validated += 1
        else:
            self.rep.validation_fail.append(
                {"where": f"{self.label}:path{self.idx}:{name}", "why": why, "case": c})
        return ok

    def sample(self, obj):
        if len(self.rep.samples) < 12:
            self.rep.samples.append(obj)


def _nonlinear(t):
    """True if t contains a product / quotient / power of non-constant terms."""
    seen = set()
    stack = [t]
    while stack:
        u = stack.pop()
        i = u.get_id()
        if i in seen or not z3.is_app(u):
            continue
        seen.add(i)
        k = u.decl().kind()
        ch = u.children()
        if k == z3.Z3_OP_MUL:
            if sum(1 for c in ch if not (z3.is_rational_value(c) or z3.is_int_value(c))) >= 2:
                return True
        elif k in (z3.Z3_OP_DIV, z3.Z3_OP_POWER):
            if not (z3.is_rational_value(ch[1]) or z3.is_int_value(ch[1])) or k == z3.Z3_OP_POWER:
                return True
        stack.extend(ch)
    return False


_SYMS = {}


def _zdiff(t, x, ctx):
    from .diff import zdiff

    return zdiff(t, x, ctx)


def _symbols(e):
    """Names of the uninterpreted constants in e (memoised on the term id)."""
    k = e.get_id()
    r = _SYMS.get(k)
    if r is not None:
        return r
    out = set()
    seen = set()
    stack = [e]
    while stack:
        t = stack.pop()
        i = t.get_id()
        if i in seen:
            continue
        seen.add(i)
        if z3.is_app(t):
            if t.num_args() == 0:
                if t.decl().kind() == z3.Z3_OP_UNINTERPRETED:
                    out.add(t.decl().name())
            else:
                stack.extend(t.children())
    r = frozenset(out)
    if len(_SYMS) > 200000:
        _SYMS.clear()
    _SYMS[k] = r
    return r


def _compare(a, b, rtol, atol):
    if isinstance(a, dict):
        if not isinstance(b, dict) or set(a) != set(b):
            return False, f"keys differ {sorted(a)} vs {sorted(b) if isinstance(b, dict) else b}"
        for k in a:
            ok, why = _compare(a[k], b[k], rtol, atol)
            if not ok:
                return False, f"{k}: {why}"
        return True, ""
    if isinstance(a, (list, tuple)) and not isinstance(b, np.ndarray):
        if not isinstance(b, (list, tuple)) or len(a) != len(b):
            return False, f"length differs: {a} vs {b}"
        for i, (x, y) in enumerate(zip(a, b)):
            ok, why = _compare(x, y, rtol, atol)
            if not ok:
                return False, f"[{i}]: {why}"
        return True, ""
    if a is None or b is None or isinstance(a, str) or isinstance(b, str):
        return (a == b), f"{a!r} vs {b!r}"
    import fractions as _fr

    if isinstance(a, _fr.Fraction) and isinstance(b, (_fr.Fraction, int)):
        return (a == b), f"symbolic {a} vs real {b} (exact)"
    try:
        aa = np.asarray(a, dtype=float)
        bb = np.asarray(b, dtype=float)
    except (TypeError, ValueError):
        return (a == b), f"{a!r} vs {b!r}"
    if aa.shape != bb.shape:
        if aa.size == bb.size:
            aa, bb = aa.ravel(), bb.ravel()
        else:
            return False, f"shape {aa.shape} vs {bb.shape}"
    if np.allclose(aa, bb, rtol=rtol, atol=atol):
        return True, ""
    return False, f"symbolic {aa.tolist()} vs real {bb.tolist()}"


def run_replay_file(path):
    """Re-run a stored counterexample in a clean interpreter against the real code."""
    env = dict(os.environ)
    env.pop("NUMBA_DISABLE_JIT", None)
    env["PV_CLEAN_REPLAY"] = "1"
    env["PYTHONPATH"] = VERIF + os.pathsep + env.get("PYTHONPATH", "")
    p = subprocess.run([sys.executable, "-m", "pv.replay", path], cwd=VERIF, env=env,
                       capture_output=True, text=True, timeout=900)
    return p.returncode == 1, p.stdout + p.stderr
