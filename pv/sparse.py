"""Symbolic sparse matrices: a scipy.sparse.spmatrix subclass backed by a dense object
array plus a concrete structural mask (the sparsity pattern is always concrete)."""
from __future__ import annotations

import numpy as _np
import scipy.sparse as _sps

from .arr import SymArr, _wrap, has_sym, is_objarr, is_sym, lift_array, sa, unlift
from .explore import Session
from .sym import SBool, SReal

_SCALARS = (int, float, _np.number, SReal)


class SymSparse(_sps.spmatrix):
    __array_priority__ = 2000

    def __init__(self, dense, fmt="csr", mask=None):
        d = _np.asarray(dense, dtype=object)
        if d.ndim == 1:
            d = d.reshape(1, -1)
        self._A = d.view(SymArr)
        self.format = fmt if fmt in ("csr", "csc", "coo", "dia", "bsr", "lil") else "csr"
        if mask is None:
            mask = _np.frompyfunc(lambda v: not (isinstance(v, (int, float, _np.number)) and v == 0), 1, 1)(
                d).astype(bool) if d.size else _np.zeros(d.shape, dtype=bool)
        self._M = _np.asarray(mask, dtype=bool).reshape(d.shape)
        self._pend = {}
        self.maxprint = 50

    # dense store, with write-back of pending compressed-array assignments
    @property
    def A_(self):
        if self._pend:
            self._flush()
        return self._A

    @property
    def M_(self):
        if self._pend:
            self._flush()
        return self._M

    def _flush(self):
        """A.indices = ..; A.data = ..; A.indptr = ..  (in-place restructuring by porepy)."""
        pend, self._pend = self._pend, {}
        data, indices, indptr = self._compressed_raw()
        data = pend.get("data", data)
        indices = _np.asarray(unlift(_np.asarray(pend.get("indices", indices)))).astype(int)
        indptr = _np.asarray(unlift(_np.asarray(pend.get("indptr", indptr)))).astype(int)
        data = _np.asarray(data, dtype=object)
        if len(indices) != len(data) or indptr[-1] != len(data):
            raise ValueError("inconsistent compressed arrays assigned to SymSparse")
        shape = pend.get("shape", self._A.shape)
        csc = self.format == "csc"
        D = _np.empty(shape, dtype=object)
        D.fill(0)
        M = _np.zeros(shape, dtype=bool)
        nmaj = shape[1] if csc else shape[0]
        if len(indptr) != nmaj + 1:
            raise ValueError("indptr of wrong length assigned to SymSparse")
        for i in range(nmaj):
            for k in range(indptr[i], indptr[i + 1]):
                r, c = (indices[k], i) if csc else (i, indices[k])
                D[r, c] = D[r, c] + data[k] if M[r, c] else data[k]
                M[r, c] = True
        self._A = D.view(SymArr)
        self._M = M

    # ---- basic protocol
    @property
    def shape(self):
        return self.A_.shape

    @shape.setter
    def shape(self, v):
        pass

    @property
    def _shape(self):
        if self._pend:
            # stack_mat / stack_diag assign the compressed arrays first and the shape last
            return self._pend.get("shape", self._A.shape)
        return self._A.shape

    @_shape.setter
    def _shape(self, v):
        v = (int(v[0]), int(v[1]))
        if not self._pend:
            if v != self._A.shape:
                raise ValueError("SymSparse: shape change without new compressed arrays")
            return
        self._pend["shape"] = v
        self._flush()

    @property
    def ndim(self):
        return 2

    @property
    def dtype(self):
        return _np.dtype(float)

    @property
    def nnz(self):
        return int(self.M_.sum())

    def getnnz(self, axis=None):
        return self.M_.sum(axis=axis)

    def count_nonzero(self):
        return self.nnz

    @property
    def size(self):
        return self.nnz

    def get_shape(self):
        return self.A_.shape

    def getformat(self):
        return self.format

    @property
    def T(self):
        return SymSparse(self.A_.T.copy(), _tfmt(self.format), self.M_.T.copy())

    def transpose(self, axes=None, copy=False):
        return self.T

    def astype(self, dt, **k):
        return SymSparse(self.A_.copy(), self.format, self.M_.copy())

    def copy(self):
        return SymSparse(self.A_.copy(), self.format, self.M_.copy())

    def __deepcopy__(self, memo):
        return self.copy()

    def tocsr(self, copy=False):
        if self.format == "csr" and not copy:
            return self  # like scipy: converting to the current format returns the object itself
        return SymSparse(self.A_.copy(), "csr", self.M_.copy())

    def tocsc(self, copy=False):
        if self.format == "csc" and not copy:
            return self
        return SymSparse(self.A_.copy(), "csc", self.M_.copy())

    def tocoo(self, copy=False):
        return SymSparse(self.A_, "coo", self.M_)

    def tolil(self, copy=False):
        return SymSparse(self.A_, "lil", self.M_)

    def todia(self, copy=False):
        return SymSparse(self.A_, "dia", self.M_)

    def asformat(self, format, copy=False):
        return SymSparse(self.A_, format or self.format, self.M_)

    def toarray(self, order=None, out=None):
        return self.A_.copy()

    todense = toarray

    @property
    def A(self):
        return self.toarray()

    def diagonal(self, k=0):
        return _np.diagonal(self.A_, k).copy().view(SymArr)

    def sum(self, axis=None, **kw):
        r = _np.sum(self.A_, axis=axis)
        if axis is not None:
            r = _np.asarray(r, dtype=object)
            r = r.reshape((1, -1) if axis == 0 else (-1, 1))
            return r.view(SymArr)
        return r

    def eliminate_zeros(self):
        pass

    def sum_duplicates(self):
        pass

    def sort_indices(self):
        pass

    def has_sorted_indices(self):
        return True

    def setdiag(self, values, k=0):
        n = min(self.shape)
        vals = values if isinstance(values, _np.ndarray) else [values] * n
        for i in range(n):
            self.A_[i, i] = vals[i]
            self.M_[i, i] = True

    # ---- compressed views (derived; pattern = structural mask)
    def _compressed(self):
        if self._pend:
            self._flush()
        return self._compressed_raw()

    def _compressed_raw(self):
        A, M = (self._A, self._M) if self.format != "csc" else (self._A.T, self._M.T)
        indptr = [0]
        indices = []
        data = []
        for i in range(A.shape[0]):
            js = _np.flatnonzero(M[i])
            indices.extend(js.tolist())
            data.extend(A[i, js].tolist())
            indptr.append(len(indices))
        d = _np.empty(len(data), dtype=object)
        for i, v in enumerate(data):
            d[i] = v
        return d.view(SymArr), _np.array(indices, dtype=_np.int32), _np.array(indptr, dtype=_np.int32)

    @property
    def data(self):
        if self._pend:
            # partially re-assigned storage (stack_mat order): plain attribute semantics, no write-through
            return _np.asarray(self._pend["data"], dtype=object).view(SymArr) if "data" in self._pend \
                else self._compressed_raw()[0]
        d = self._compressed()[0].view(_DataView)
        d._owner = self
        return d

    @data.setter
    def data(self, v):
        if "indices" in self._pend or "indptr" in self._pend:
            self._pend["data"] = v
            return
        self._write_data(v)

    def _write_data(self, v):
        A, M = (self.A_, self.M_) if self.format != "csc" else (self.A_.T, self.M_.T)
        v = _np.asarray(v, dtype=object).ravel()
        if len(v) != int(M.sum()):
            # structure changes: the new indices/indptr follow (merge_matrices order)
            self._pend["data"] = v
            return
        k = 0
        for i in range(A.shape[0]):
            for j in _np.flatnonzero(M[i]):
                A[i, j] = v[k]
                k += 1

    @property
    def indices(self):
        if self._pend:
            return _np.asarray(self._pend["indices"]) if "indices" in self._pend else self._compressed_raw()[1]
        return self._compressed()[1]

    @indices.setter
    def indices(self, v):
        self._pend["indices"] = v

    @property
    def indptr(self):
        if self._pend:
            return _np.asarray(self._pend["indptr"]) if "indptr" in self._pend else self._compressed_raw()[2]
        return self._compressed()[2]

    @indptr.setter
    def indptr(self, v):
        self._pend["indptr"] = v
        if "indices" in self._pend:
            self._flush()

    @property
    def row(self):
        return _np.nonzero(self.M_)[0]

    @property
    def col(self):
        return _np.nonzero(self.M_)[1]

    def nonzero(self):
        return _np.nonzero(self.M_)

    # ---- algebra
    @staticmethod
    def lift(m):
        if isinstance(m, SymSparse):
            return m
        if _sps.issparse(m):
            mm = m.tocsr()
            mask = _np.zeros(m.shape, dtype=bool)
            coo = mm.tocoo()
            mask[coo.row, coo.col] = True
            fmt = m.format if m.format in ("csr", "csc") else "csr"
            return SymSparse(lift_array(mm.toarray()), fmt, mask)
        if isinstance(m, _np.ndarray) and m.ndim == 2:
            return SymSparse(lift_array(m) if m.dtype != object else m)
        raise TypeError(type(m))

    def _mm(self, o):
        o = SymSparse.lift(o)
        A = _np.dot(self.A_.view(_np.ndarray), o.A_.view(_np.ndarray)) if self.shape[1] else \
            _np.zeros((self.shape[0], o.shape[1]), dtype=object)
        M = (self.M_.astype(int) @ o.M_.astype(int)) > 0
        A = _np.asarray(A, dtype=object)
        A[~M] = 0
        return SymSparse(A, "csr", M)

    def __matmul__(self, o):
        if isinstance(o, SymSparse) or _sps.issparse(o):
            return self._mm(o)
        if isinstance(o, _np.ndarray):
            if self.shape[1] == 0:
                return _np.zeros((self.shape[0],) + o.shape[1:], dtype=object).view(SymArr)
            return _wrap(_np.dot(self.A_.view(_np.ndarray), _obj(o)))
        return NotImplemented

    dot = __matmul__

    def __rmatmul__(self, o):
        if _sps.issparse(o):
            return SymSparse.lift(o)._mm(self)
        if isinstance(o, _np.ndarray):
            return _wrap(_np.dot(_obj(o), self.A_.view(_np.ndarray)))
        return NotImplemented

    def __mul__(self, o):
        if isinstance(o, _SCALARS):
            return SymSparse(self.A_ * o, self.format, self.M_.copy())
        return self.__matmul__(o)

    def __rmul__(self, o):
        if isinstance(o, _SCALARS):
            return SymSparse(self.A_ * o, self.format, self.M_.copy())
        return self.__rmatmul__(o)

    def __truediv__(self, o):
        if isinstance(o, _SCALARS):
            return SymSparse(self.A_ / o, self.format, self.M_.copy())
        return NotImplemented

    def __neg__(self):
        return SymSparse(-self.A_, self.format, self.M_.copy())

    def __add__(self, o):
        if isinstance(o, (int, float)) and o == 0:
            return self.copy()
        if not (_sps.issparse(o) or isinstance(o, SymSparse)):
            return NotImplemented
        o = SymSparse.lift(o)
        if o.shape != self.shape:
            raise ValueError("inconsistent shapes")
        return SymSparse(self.A_ + o.A_, self.format, self.M_ | o.M_)

    __radd__ = __add__

    def __sub__(self, o):
        if not (_sps.issparse(o) or isinstance(o, SymSparse)):
            return NotImplemented
        o = SymSparse.lift(o)
        if o.shape != self.shape:
            raise ValueError("inconsistent shapes")
        return SymSparse(self.A_ - o.A_, self.format, self.M_ | o.M_)

    def __rsub__(self, o):
        if not (_sps.issparse(o) or isinstance(o, SymSparse)):
            return NotImplemented
        o = SymSparse.lift(o)
        return SymSparse(o.A_ - self.A_, self.format, self.M_ | o.M_)

    def multiply(self, o):
        if _sps.issparse(o) or isinstance(o, SymSparse):
            o = SymSparse.lift(o)
            return SymSparse(self.A_ * o.A_, self.format, self.M_ & o.M_)
        if isinstance(o, _SCALARS):
            return self * o
        o = _np.asarray(o)
        A = self.A_ * _obj(o)
        return SymSparse(A, self.format, _np.broadcast_to(self.M_, A.shape).copy())

    def power(self, n):
        return SymSparse(self.A_ ** n, self.format, self.M_.copy())

    def __abs__(self):
        return SymSparse(abs(self.A_), self.format, self.M_.copy())

    def __getitem__(self, k):
        r = self.A_[k]
        m = self.M_[k]
        if not isinstance(r, _np.ndarray):
            return r
        if r.ndim == 1:
            if isinstance(k, tuple) and len(k) == 2 and isinstance(k[1], (int, _np.integer)):
                r, m = r.reshape(-1, 1), m.reshape(-1, 1)
            else:
                r, m = r.reshape(1, -1), m.reshape(1, -1)
        return SymSparse(r.copy(), self.format, m.copy())

    def __setitem__(self, k, v):
        if isinstance(v, SymSparse) or _sps.issparse(v):
            v = SymSparse.lift(v)
            self.A_[k] = v.A_.reshape(self.A_[k].shape)
            self.M_[k] = v.M_.reshape(self.M_[k].shape)
        else:
            self.A_[k] = v
            self.M_[k] = True

    def getrow(self, i):
        return self[i, :]

    def getcol(self, j):
        return self[:, j]

    def __eq__(self, o):
        raise NotImplementedError("== on SymSparse")

    def __ne__(self, o):
        raise NotImplementedError("!= on SymSparse")

    __hash__ = None

    def __len__(self):
        raise TypeError("sparse matrix length is ambiguous")

    def __repr__(self):
        return f"<SymSparse {self.shape} {self.format} nnz={self.nnz}>"

    __str__ = __repr__


class _DataView(SymArr):
    """.data of a SymSparse: in-place writes go back to the owning matrix."""

    _owner = None

    def __setitem__(self, key, val):
        super().__setitem__(key, val)
        if self._owner is not None:
            self._owner._write_data(_np.asarray(self))

    def __array_finalize__(self, obj):
        self._owner = None


def _tfmt(f):
    return {"csr": "csc", "csc": "csr"}.get(f, f)


def _obj(o):
    if isinstance(o, _np.ndarray):
        return o.view(_np.ndarray) if o.dtype == object else lift_array(o).view(_np.ndarray)
    return o


def _symop(o):
    return isinstance(o, (SReal, SymSparse)) or (isinstance(o, _np.ndarray) and o.dtype == object)


_installed = []


def install_scipy_wrappers():
    """real_sparse (op) symbolic  ->  lift the sparse operand.  Inert otherwise."""
    if _installed:
        return
    _installed.append(True)
    base = _sps._base._spbase
    names = ["__matmul__", "__rmatmul__", "__mul__", "__rmul__", "__add__", "__radd__",
             "__sub__", "__rsub__", "multiply", "__truediv__", "dot"]

    def wrap(cls, name):
        orig = cls.__dict__[name]

        def f(self, other, *a, **k):
            if not isinstance(self, SymSparse) and _symop(other):
                return getattr(SymSparse.lift(self), name)(other, *a, **k)
            return orig(self, other, *a, **k)

        f.__name__ = name
        f.__wrapped__ = orig
        setattr(cls, name, f)

    for n in names:
        if n in base.__dict__:
            wrap(base, n)
    mbase = _sps._matrix.spmatrix
    for n in names:
        if n in mbase.__dict__:
            wrap(mbase, n)
    for cls in (_sps._compressed._cs_matrix, _sps._data._data_matrix,
                _sps.csr_matrix, _sps.csc_matrix, _sps.coo_matrix, _sps.dia_matrix):
        for n in names:
            if n in cls.__dict__:
                wrap(cls, n)


def _any_symsparse(blocks):
    for b in blocks:
        if isinstance(b, (list, tuple)):
            if _any_symsparse(b):
                return True
        elif isinstance(b, SymSparse):
            return True
    return False


class SpsProxy:
    """Stands in for the module-global ``sps`` inside porepy modules."""

    def __getattr__(self, n):
        return getattr(_sps, n)

    def issparse(self, x):
        return isinstance(x, SymSparse) or _sps.issparse(x)

    def isspmatrix(self, x):
        return isinstance(x, SymSparse) or _sps.isspmatrix(x)

    def isspmatrix_csr(self, x):
        return (isinstance(x, SymSparse) and x.format == "csr") or _sps.isspmatrix_csr(x)

    def isspmatrix_csc(self, x):
        return (isinstance(x, SymSparse) and x.format == "csc") or _sps.isspmatrix_csc(x)

    def diags(self, diagonals, offsets=0, shape=None, format=None, dtype=None):
        if Session.active and is_sym(diagonals):
            if not has_sym(diagonals) and not isinstance(diagonals, (list, tuple)):
                return _sps.diags(unlift(_np.asarray(diagonals)), offsets, shape=shape, format=format)
            if isinstance(offsets, (int, _np.integer)) and offsets == 0 and (
                    isinstance(diagonals, _np.ndarray) and diagonals.ndim == 1):
                d = diagonals
            elif isinstance(diagonals, (list, tuple)) and len(diagonals) == 1 and (
                    offsets in (0, [0], (0,))):
                d = _np.asarray(diagonals[0], dtype=object)
            else:
                raise NotImplementedError("sps.diags with symbolic off-diagonals")
            n = len(d)
            D = _np.empty((n, n), dtype=object)
            D.fill(0)
            M = _np.eye(n, dtype=bool)
            for i in range(n):
                D[i, i] = d[i]
            return SymSparse(D, format or "dia", M)
        return _sps.diags(diagonals, offsets, shape=shape, format=format, dtype=dtype)

    def _cs(self, fmt, real, arg1, shape=None, dtype=None, copy=False):
        if Session.active:
            if isinstance(arg1, tuple) and len(arg1) == 2 and all(
                    isinstance(x, (int, _np.integer)) for x in arg1):
                # empty matrix created inside a symbolic session: keep it liftable
                D = _np.empty(arg1, dtype=object)
                D.fill(0)
                return SymSparse(D, fmt, _np.zeros(arg1, dtype=bool))
            if isinstance(arg1, SymSparse):
                return SymSparse(arg1.A_.copy() if copy else arg1.A_, fmt, arg1.M_)
            if isinstance(arg1, _np.ndarray) and arg1.dtype == object:
                if not has_sym(arg1):
                    return real(unlift(arg1), shape=shape)
                return SymSparse(arg1, fmt)
            if isinstance(arg1, tuple) and len(arg1) in (2, 3) and is_objarr(_np.asarray(arg1[0]) if not isinstance(arg1[0], _np.ndarray) else arg1[0]):
                data = _np.asarray(arg1[0], dtype=object)
                if not has_sym(data):
                    rest = tuple(_np.asarray(unlift(_np.asarray(x))).astype(int) if not isinstance(x, tuple)
                                 else x for x in arg1[1:])
                    return real((unlift(data),) + rest, shape=shape)
                if len(arg1) == 2:
                    rows, cols = arg1[1]
                    rows, cols = _np.asarray(rows), _np.asarray(cols)
                else:
                    indices = _np.asarray(unlift(_np.asarray(arg1[1]))).astype(int)
                    indptr = _np.asarray(unlift(_np.asarray(arg1[2]))).astype(int)
                    major = _np.repeat(_np.arange(len(indptr) - 1), _np.diff(indptr))
                    rows, cols = (major, indices) if fmt != "csc" else (indices, major)
                if shape is None:
                    if len(arg1) == 3:
                        nmaj = len(arg1[2]) - 1
                        nmin = int(indices.max()) + 1 if len(indices) else 0
                        shape = (nmaj, nmin) if fmt != "csc" else (nmin, nmaj)
                    else:
                        shape = (int(rows.max()) + 1, int(cols.max()) + 1)
                D = _np.empty(shape, dtype=object)
                D.fill(0)
                M = _np.zeros(shape, dtype=bool)
                for v, i, j in zip(data.tolist(), rows.tolist(), cols.tolist()):
                    D[i, j] = D[i, j] + v if M[i, j] else v
                    M[i, j] = True
                return SymSparse(D, fmt, M)
        return real(arg1, shape=shape, dtype=dtype, copy=copy)

    def _dia_matrix(self, arg1, shape=None, dtype=None, copy=False):
        if Session.active and isinstance(arg1, tuple) and len(arg1) == 2:
            data, offsets = arg1
            darr = data if isinstance(data, _np.ndarray) else _np.asarray(data)
            if darr.dtype == object:
                if not has_sym(darr):
                    return _sps.dia_matrix((unlift(darr), offsets), shape=shape)
                if _np.asarray(offsets).ravel().tolist() != [0]:
                    raise NotImplementedError("dia_matrix with offsets")
                d = darr.ravel()
                n = shape[0] if shape else len(d)
                return self.diags(d[:n].view(SymArr), 0, format="dia")
        return _sps.dia_matrix(arg1, shape=shape, dtype=dtype, copy=copy)

    def _blocks(self, blocks):
        rows = []
        for br in blocks:
            row = []
            for b in br:
                if b is None:
                    row.append(None)
                else:
                    row.append(SymSparse.lift(b))
            rows.append(row)
        nr, nc = len(rows), len(rows[0])
        rh = [next((b.shape[0] for b in rows[i] if b is not None), None) for i in range(nr)]
        cw = [next((rows[i][j].shape[1] for i in range(nr) if rows[i][j] is not None), None)
              for j in range(nc)]
        if any(h is None for h in rh) or any(w is None for w in cw):
            raise ValueError("blocks with undetermined shape")
        D = _np.empty((sum(rh), sum(cw)), dtype=object)
        D.fill(0)
        M = _np.zeros(D.shape, dtype=bool)
        r0 = 0
        for i in range(nr):
            c0 = 0
            for j in range(nc):
                b = rows[i][j]
                if b is not None:
                    D[r0:r0 + rh[i], c0:c0 + cw[j]] = b.A_
                    M[r0:r0 + rh[i], c0:c0 + cw[j]] = b.M_
                c0 += cw[j]
            r0 += rh[i]
        return D, M

    def bmat(self, blocks, format=None, dtype=None):
        if Session.active and _any_symsparse([list(r) for r in blocks]):
            D, M = self._blocks([list(r) for r in blocks])
            return SymSparse(D, format or "csr", M)
        return _sps.bmat(blocks, format=format, dtype=dtype)

    def vstack(self, blocks, format=None, dtype=None):
        if Session.active and _any_symsparse(blocks):
            D, M = self._blocks([[b] for b in blocks])
            return SymSparse(D, format or "csr", M)
        return _sps.vstack(blocks, format=format, dtype=dtype)

    def hstack(self, blocks, format=None, dtype=None):
        if Session.active and _any_symsparse(blocks):
            D, M = self._blocks([list(blocks)])
            return SymSparse(D, format or "csr", M)
        return _sps.hstack(blocks, format=format, dtype=dtype)

    def block_diag(self, mats, format=None, dtype=None):
        if Session.active and _any_symsparse(mats):
            n = len(mats)
            blocks = [[mats[i] if i == j else None for j in range(n)] for i in range(n)]
            D, M = self._blocks(blocks)
            return SymSparse(D, format or "csr", M)
        return _sps.block_diag(mats, format=format, dtype=dtype)

    def kron(self, A, B, format=None):
        if Session.active and (_any_symsparse([A, B]) or is_objarr(A) or is_objarr(B)):
            a, b = SymSparse.lift(A), SymSparse.lift(B)
            D = _np.kron(a.A_.view(_np.ndarray), b.A_.view(_np.ndarray))
            M = _np.kron(a.M_, b.M_)
            return SymSparse(D, format or "csr", M)
        return _sps.kron(A, B, format=format)

    def find(self, A):
        if isinstance(A, SymSparse):
            r, c = _np.nonzero(A.M_)
            return r, c, A.A_[r, c]
        return _sps.find(A)

    def triu(self, A, k=0, format=None):
        if isinstance(A, SymSparse):
            m = _np.triu(_np.ones(A.shape, dtype=bool), k)
            D = A.A_.copy()
            D[~m] = 0
            return SymSparse(D, format or A.format, A.M_ & m)
        return _sps.triu(A, k, format=format)

    def tril(self, A, k=0, format=None):
        if isinstance(A, SymSparse):
            m = _np.tril(_np.ones(A.shape, dtype=bool), k)
            D = A.A_.copy()
            D[~m] = 0
            return SymSparse(D, format or A.format, A.M_ & m)
        return _sps.tril(A, k, format=format)


spsproxy = SpsProxy()


class _CtorMeta(type):
    """Callable like the proxy constructor, usable in isinstance like the real class."""

    def __instancecheck__(cls, obj):
        return isinstance(obj, cls._real)

    def __subclasscheck__(cls, sub):
        return issubclass(sub, cls._real)

    def __call__(cls, arg1, shape=None, dtype=None, copy=False):
        if cls._fmt == "dia":
            return spsproxy._dia_matrix(arg1, shape=shape, dtype=dtype, copy=copy)
        return spsproxy._cs(cls._fmt, cls._real, arg1, shape, dtype, copy)


for _fmt, _real in (("csr", _sps.csr_matrix), ("csc", _sps.csc_matrix), ("coo", _sps.coo_matrix),
                    ("dia", _sps.dia_matrix)):
    setattr(SpsProxy, _real.__name__, _CtorMeta(_real.__name__, (), {"_real": _real, "_fmt": _fmt}))
